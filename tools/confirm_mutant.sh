#!/bin/bash
# tools/confirm_mutant.sh <mutant-dir>   (contains patch.diff, demo_test.go, meta.json)
# Confirms in scratch copies of /repo: with the patch it builds, the existing suite passes
# (retrying only the known 2 ms timeout flake), the demo fails; without the patch the demo passes.
set -u
export GOFLAGS=-mod=mod GOPROXY=off GOSUMDB=off GOTOOLCHAIN=local
m=$(readlink -f "$1")
pkgdir=$(python3 -c "import json;print(json.load(open('$m/meta.json')).get('demo_package_dir','.'))")
pkgdir=${pkgdir%% *}; pkgdir=${pkgdir#/tmp/wt-*/}; pkgdir=${pkgdir#./}; case "$pkgdir" in /*|"") pkgdir=.;; esac
[ -d "/repo/$pkgdir" ] || pkgdir=.
runpat=$(python3 -c "
import json,re
m=json.load(open('$m/meta.json')); c=m.get('demo_run_cmd','')
r=re.search(r'-run[ =]+(\\S+)',c)
print(r.group(1).strip('\\'\"') if r else 'Test.*(Demo|DEMO|demo|C[0-9][0-9])')")
extra=""; grep -q -- "-race" "$m/meta.json" && extra="-race"
grep -q "go:build verif" "$m/demo_test.go" && extra="$extra -tags verif"
work=$(mktemp -d /tmp/confirm-XXXXXX); trap 'rm -rf "$work"' EXIT
for v in clean patched; do git -C /repo archive HEAD | tar -x -C "$work" --one-top-level=$v; done
(cd "$work/patched" && patch -p1 -s < "$m/patch.diff") || { echo "CONFIRM patch-failed"; exit 3; }
(cd "$work/patched" && go build ./... ) || { echo "CONFIRM build-failed"; exit 3; }
# each package must pass; a package is re-run (up to 10 times) only when its failure is the known
# 2 ms timeout flake ("runtime limit: timeout", or the CompareError nil dereference it causes in ./samples)
suite=pass
for pkg in . ./datalog ./parser ./samples; do
  ok=no
  for i in 1 2 3 4 5 6 7 8 9 10; do
    out=$(cd "$work/patched" && go test -vet=off -count=1 $pkg 2>&1)
    if echo "$out" | grep -q "^ok"; then ok=yes; break; fi
    echo "$out" | grep -q "runtime limit: timeout\|CompareError\|forbidden to read" || break
  done
  [ $ok = yes ] || { suite=fail; echo "suite: package $pkg fails: $(echo "$out" | grep -m3 "^--- FAIL\|panic:\|Error:" | tr '\n' ' ' | cut -c1-200)"; }
done
for v in clean patched; do cp "$m/demo_test.go" "$work/$v/$pkgdir/zz_demo_test.go"; done
dc=fail; dp=fail
for i in 1 2 3 4 5; do (cd "$work/clean/$pkgdir" && go test $extra -vet=off -count=1 -run "$runpat" . 2>&1 | grep -q '^ok' ) && { dc=pass; break; }; done
for i in 1 2 3; do (cd "$work/patched/$pkgdir" && go test $extra -vet=off -count=1 -run "$runpat" . 2>&1 | grep -q '^ok' ) && { dp=pass; break; }; done
echo "CONFIRM suite_with_patch=$suite demo_clean=$dc demo_patched=$dp"
[ "$suite" = pass ] && [ "$dc" = pass ] && [ "$dp" = fail ]

#!/bin/bash
# Re-introduces each repaired defect (reverse patch of its fix commit) in a scratch copy
# and checks that the named check reports it. Writes /verif/seeded/R-<id>/.
set -u
cd /verif
while read id commit prop; do
  [ -z "$id" ] && continue
  d=/verif/seeded/R-$id; mkdir -p "$d"
  git -C /repo diff "$commit" "$commit~1" > "$d/patch.diff"
  out=$(KEEP_REPLAY="$d/replays" tools/runmutant.sh "$d/patch.diff" "$prop" quick 2>&1)
  rc=$(echo "$out" | grep -o 'exit=[0-9]*' | tail -1)
  echo "R-$id $prop $commit $rc"
  echo "$out" > "$d/check-output.txt"
  subj=$(git -C /repo log -1 --format=%s "$commit")
  python3 - "$d" "$id" "$commit" "$prop" "$rc" "$subj" <<'PY'
import json,sys,glob,os
d,id_,commit,prop,rc,subj=sys.argv[1:]
reps=sorted(glob.glob(d+'/replays/*.json'))[:2]
# keep at most two replays
for f in sorted(glob.glob(d+'/replays/*.json'))[2:]: os.remove(f)
json.dump({"id":"R-"+id_,"kind":"regression mutant: reverse patch of fix commit "+commit,"property":prop,
 "fix_subject":subj,"needs_to_manifest":"see DESIGN.md 9.4 row "+id_,
 "ran":"tools/runmutant.sh seeded/R-%s/patch.diff %s quick"%(id_,prop),"result":rc,
 "caught": rc=="exit=1","demonstration":"replays/*.json: minimised plans; BSIM_REPO=<patched copy> ./check replay <file> reproduces, on the repaired tree it does not"},open(d+'/meta.json','w'),indent=1)
PY
done <<'LIST'
D9 5849b8b C05
D6 f8cf6d8 C11
D8 c4da4c4 C11
D7 09afb40 C11
D1 6c6585c C20
D4 9f818a2 C08
D2 bf3eea7 C16
D11 4720f20 C08
D3 85a546b C13
D10a 98ec6e3 C10
D10b f219ea7 C10
D12 9318fcf C10
D5 13833c8 C19
D13 676de93 C18
LIST

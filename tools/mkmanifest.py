#!/usr/bin/env python3
"""Writes /verif/MANIFEST.json from the table below (single source of truth)."""
import json, subprocess, os

HOOK_COMMITS = ["aef1260"]

CHECKS = {
 # id: (category, technique, text, note, design_ref)
 "C04": ("exploration", "deterministic simulation: seeded request workloads on verifier nodes under a controlled engine schedule and frozen clock; refinement against a reference decision procedure",
         "Seeded exploration: generated tokens and authorizer contents inside the specified fragment are authorized by the real library while the simulator decides every engine goroutine interleaving and owns the clock; each verdict class (and the set of failed checks) is compared with an independent reference implementation of the decision procedure. Sampling, not proof; the property is a function of the input, so the detecting power is that of the generator and the reference model, the simulator contributes schedule variation and removes timeouts as a source of noise.",
         "trusted: reference model bsim/ref (validated on the repository's sample tokens), Go runtime, testing/synctest; yield points are the 7 simYield call sites", "DESIGN.md §3 C04"),
 "C05": ("exploration", "deterministic simulation: datalog.World under seeded goroutine schedules and clock stalls; refinement against a naive least-fixpoint reference evaluator",
         "Seeded exploration of programs x fact orders x engine schedules (calm, tape-ordered, tape-ordered with clock stalls): whenever Run returns nil the fact set must equal the reference least model (both inclusions) and every QueryRule result must equal the reference's head instances. Sampling, not proof.",
         "trusted: reference evaluator bsim/ref (naive bottom-up, math/big arithmetic), Go regexp, synctest", "DESIGN.md §3 C05"),
 "C11": ("exploration", "deterministic simulation with fault injection: seeded schedules and clock stalls at engine yield points, limit configurations around the reference model's sizes, goroutine census after every call; plus enumeration of the stall position over every scheduler step of a program catalogue",
         "Seeded exploration (programs x limit configurations x schedules x clock stalls) with oracles S1-S6 of DESIGN §3 C11 (no silent truncation, limits honoured, distinguishable and possible error, bounded call time, limits honoured by every constructor, no stranded goroutine), plus a fault-enumeration part that is exhaustive in the injection step of the stall for a fixed catalogue of small programs (reported under coverage.fault_enumeration). Sampling elsewhere.",
         "trusted: reference model for |lfp| and depth, synctest's durable-blocking detection, runtime.Stack for the goroutine census", "DESIGN.md §3 C11"),
}

NOT_APPLICABLE = {
 "C06": "pure function of an operator list and operand values: no goroutine, clock, I/O, shared state or history for a simulator to own; deciding it would be input generation against a second evaluator (property-based testing), not deterministic simulation (DESIGN.md §4)",
 "C14": "pure text -> value function of the parser: no schedule, clock, fault or multi-step state (concurrent use of one parser instance is covered under C19) (DESIGN.md §4)",
 "C15": "pure value -> text -> value round trip: no schedule, clock, fault or history beyond one deterministic round trip (DESIGN.md §4)",
}

ALL = ["C%02d" % i for i in range(1, 21)]
WIP = "check not built yet in this session (work in progress; see DESIGN.md §3 for the plan)"

def main():
    checks = []
    for pid in ALL:
        if pid not in CHECKS:
            continue
        cat, tech, text, note, ref = CHECKS[pid]
        checks.append({
            "property_id": pid,
            "quick_cmd": "./check %s quick" % pid,
            "thorough_cmd": "./check %s thorough" % pid,
            "evidence_file": "/verif/evidence/%s.json" % pid,
            "replay_cmd_template": "./check replay {path}",
            "engine": "bsim",
            "level_claimed": {"category": cat, "text": text, "design_ref": ref},
            "level_note": note,
            "technique": tech,
        })
    na = []
    for pid in ALL:
        if pid in CHECKS:
            continue
        na.append({"property_id": pid, "reason": NOT_APPLICABLE.get(pid, WIP)})
    m = {
        "version": 1,
        "setup_cmd": "./check build",
        "hooks": {
            "guard": "verif",
            "enable": "go build -tags verif (go1.26.8, GOTOOLCHAIN=local); the harness module /verif/bsim replaces github.com/biscuit-auth/biscuit-go/v2 => /repo, so every build compiles /repo's current working tree",
            "baseline_off_cmd": "cd /repo && GOFLAGS=-mod=mod GOPROXY=off GOSUMDB=off go test -vet=off -count=1 ./...",
            "source_commits": HOOK_COMMITS,
            "add_only": True,
        },
        "engines": [{
            "name": "bsim", "path": "/verif/bsim",
            "serves_properties": [c["property_id"] for c in checks],
            "kind_free_text": "in-process deterministic simulator: JSON plans (ops + faults + schedule tape + entropy) executed against the real library inside a testing/synctest bubble; yield scheduler over the datalog engine's goroutines, fake clock with plan-driven stalls, simulated entropy / transport / disk; oracles = history invariants + refinement against an independent reference model; ddmin-style minimiser; replay files",
        }],
        "checks": checks,
        "not_applicable": na,
        "notes": "All checks: exit 0 held, exit 1 with VIOLATION lines, exit 2 build/harness trouble (never a verdict). VERIF_SEED selects the seed (default 1); VERIF_RUNS overrides the number of runs. Known and fixed findings: /verif/known-findings.json.",
    }
    json.dump(m, open("/verif/MANIFEST.json", "w"), indent=1)
    print("wrote MANIFEST.json with", len(checks), "checks;", len(na), "not claimed")

main()

#!/usr/bin/env python3
"""Writes /verif/MANIFEST.json from the table below (single source of truth)."""
import json, subprocess, os

HOOK_COMMITS = ["aef1260"]

CHECKS = {
 # id: (category, technique, text, note, design_ref)
 "C04": ("exploration", "deterministic simulation: seeded request workloads on verifier nodes under a controlled engine schedule and frozen clock; refinement against a reference decision procedure",
         "Seeded exploration: generated tokens and authorizer contents inside the specified fragment are authorized by the real library while the simulator decides every engine goroutine interleaving and owns the clock; each verdict class (and the set of failed checks) is compared with an independent reference implementation of the decision procedure. Sampling, not proof; the property is a function of the input, so the detecting power is that of the generator and the reference model, the simulator contributes schedule variation and removes timeouts as a source of noise.",
         "trusted: reference model bsim/ref (validated on the repository's sample tokens), Go runtime, testing/synctest; yield points are the 7 simYield call sites", "DESIGN.md §3 C04"),
 "C05": ("exploration", "deterministic simulation: datalog.World under seeded goroutine schedules and clock stalls; refinement against a naive least-fixpoint reference evaluator",
         "Seeded exploration of programs x fact orders x routes through World's API (direct, clone, evaluate twice, facts added after a first evaluation, rules withdrawn with ResetRules before the real ones) x engine schedules (calm, tape-ordered, tape-ordered with clock stalls): whenever Run returns nil the fact set must equal the reference least model (both inclusions), no complete match of any rule may make an expression fail, a world evaluated after its clone must agree with the clone, and every QueryRule result must equal the reference's head instances. Sampling, not proof.",
         "trusted: reference evaluator bsim/ref (naive bottom-up, math/big arithmetic), Go regexp, synctest", "DESIGN.md §3 C05"),
 "C11": ("exploration", "deterministic simulation with fault injection: seeded schedules and clock stalls at engine yield points, limit configurations around the reference model's sizes, goroutine census after every call; plus enumeration of the stall position over every scheduler step of a program catalogue",
         "Seeded exploration (programs x limit configurations x schedules x clock stalls) with oracles S1-S6 of DESIGN §3 C11 (no silent truncation, limits honoured, distinguishable and possible error, bounded call time in simulated time and in scheduling steps past the deadline, limits honoured by every constructor, no stranded goroutine), plus a fault-enumeration part that is exhaustive in the injection step of the stall for a fixed catalogue of small programs (reported under coverage.fault_enumeration). Sampling elsewhere.",
         "trusted: reference model for |lfp| and depth, synctest's durable-blocking detection, runtime.Stack for the goroutine census", "DESIGN.md §3 C11"),
 "C01": ("exploration", "deterministic simulation with fault injection: multi-party histories (issuers, holders, verifiers) over a simulated transport on which a key-less adversary mutates in-flight tokens; oracle = independent wire decoder + ed25519 chain walk + ground-truth key ledger",
         "Seeded exploration of derivation histories (chains up to 16 blocks, the same token object verified repeatedly) x 1-3 mutations per message drawn from 35 byte-level and structural mutation kinds (including tokens forged without any private key under the all-zero small-order public key); soundness (accepted => reference chain walk accepts and the authority block was signed by the issuer per the key ledger), completeness (well-formed and valid => accepted, under a single key and under key sources holding the issuer's key under the id its builder was given or as default, including legitimately valid mutations such as appending with a captured next secret) and 'no Authorizer for a rejected token'. Sampling; ed25519 itself is trusted.",
         "trusted: bsim/ref wire reader and chain walk, crypto/ed25519; mutation kinds are those listed in the evidence 'rule'", "DESIGN.md §3 C01"),
 "C02": ("exploration", "deterministic simulation: delegation histories with hostile holders generating blocks against the verifier's policies; lineage invariant over the recorded history (model-free)",
         "Seeded exploration of delegation chains (1-5 hops) whose appended blocks are generated against the token and the authorizer content; invariant allow(descendant) => allow(ancestor) for every ancestor verified with the same authorizer content. Model-free relational oracle, so a reference-model bug cannot raise a C02 alarm. Sampling; reach is that of the adversarial block generator.",
         "trusted: nothing beyond the library's own verdict classification via errors.Is / nil", "DESIGN.md §3 C02"),
 "C03": ("exploration", "deterministic simulation: twin delegation histories with and without check-free blocks at random chain positions; twin agreement (model-free)",
         "Seeded exploration of twin lineages (extra blocks are check-free, rule-only, or carry a copy of a check from elsewhere in the request that their own facts satisfy); agreement on verdict class, failed-check set (block indexes remapped through the known insertion positions) and query result sets. Visibility of authority/authorizer facts to later blocks is decided on the same runs by the reference verdict, and by a fresh-twin comparison when authorizer facts arrive after a first Authorize. Sampling.",
         "trusted: the failed-check extraction regexp is applied identically to both twins of the same build", "DESIGN.md §3 C03"),
 "C07": ("exploration", "deterministic simulation: every message honest parties put on the simulated wire is intercepted and decoded by an independent hand-written protobuf reader; byte-exact re-serialization; version-gate fault injected by an issuer-side re-sign",
         "Seeded exploration of build / attenuate / seal / serialize / reload histories over generated block contents: decoded content, symbol-table rules and version must equal what the callers supplied; Unmarshal+Serialize must be the identity on bytes; reloaded tokens print, identify and authorize like the originals; unsupported versions must be rejected. Sampling.",
         "trusted: bsim/ref wire reader (field numbers transcribed from pb/biscuit.proto), validated on the repository's sample tokens", "DESIGN.md §3 C07"),
 "C08": ("exploration", "deterministic simulation: seeded interleavings of operations over a growing family of tokens/builders/blocks sharing ancestors; invariant 'fingerprint of every live object unchanged after every step'",
         "Seeded exploration of 6-40 step histories; after every step every live token and built block is re-fingerprinted (String, Code, bytes, revocation ids, counts, root key id) and on creation each token is decoded independently and compared with exactly what its own callers put in; the authorization behaviour of up to three family members is observed early and again at the end of the history. Plus a fault-enumeration part: directed two-sibling histories with an evaluation deadline placed at EVERY scheduler step and the goroutines it leaves behind interleaved with the sibling's later evaluations. Sampling elsewhere.",
         "trusted: bsim/ref decoder for the creation-time content check; the fingerprint is the library's own observable surface", "DESIGN.md §3 C08"),
 "C09": ("exploration", "deterministic simulation with fault injection: seal / reload / extend / tamper histories; sealed-vs-unsealed twin agreement plus transport tampering of the sealed envelope judged by the reference chain walk",
         "Seeded exploration: twin agreement (verification result, verdict, failed checks, revocation ids) between a token, its sealed form and the sealed form reloaded from bytes; Append and Seal on sealed tokens (fresh and reloaded) must fail; tampered sealed envelopes must be rejected. Sampling.",
         "trusted: bsim/ref chain walk for the tamper half; the twin half is model-free", "DESIGN.md §3 C09"),
 "C12": ("exploration", "deterministic simulation: 2-4 verifier replicas receive the same logical request reordered / duplicated / renamed / retried; replica agreement (model-free)",
         "Seeded exploration; replicas must agree on verdict class, number of failed checks, a query panel and the set of derived facts (one query per predicate); a repeated Authorize must equal the first. Sampling.",
         "trusted: none beyond errors.Is classification; derived facts are observed through Query, not through PrintWorld text", "DESIGN.md §3 C12"),
 "C13": ("exploration", "deterministic simulation with fault injection: request histories on one long-lived authorizer (any outcome per round, including tape-forced timeouts) with Reset between rounds; fresh-twin agreement per round (model-free)",
         "Seeded exploration of 2-5 rounds per authorizer; each round's verdict, failed checks and query results (a panel with one query per predicate) must equal those of a freshly created authorizer given only that round's content; rounds are biased so that the previous round's facts would satisfy this round's checks. Plus a fault-enumeration part: directed histories (productive round, Reset, rounds asking about what the first derived) with the deadline placed at EVERY scheduler step, goroutines left behind by the timed-out round NOT drained but interleaved with the following rounds. Sampling elsewhere.",
         "trusted: none beyond errors.Is classification", "DESIGN.md §3 C13"),
 "C16": ("exploration", "deterministic simulation with fault injection: derivation histories x verifier key maps, root key id rewritten in transit; ledger of ids + exact-key selection judged by the reference chain walk",
         "Seeded exploration over ids {absent, 0, 1, 2^31, 2^32-1, random}, all derivation orders (attenuate, seal, serialize, reload) and key maps with right keys under wrong ids, wrong keys under right ids, empty keys, and keys rotated in place between two verifications of the same token object. Sampling.",
         "trusted: bsim/ref envelope decoder and chain walk", "DESIGN.md §3 C16"),
 "C17": ("exploration", "deterministic simulation: derivation histories with fresh simulated entropy per signing event; prefix stability, independent signature extraction and a run-wide uniqueness registry",
         "Seeded exploration biased to identical twins (same content signed twice on the same and on different parents). Sampling; uniqueness is checked within each run (the premise is fresh entropy per operation, which the simulator controls).",
         "trusted: bsim/ref envelope decoder; crypto/ed25519 determinism", "DESIGN.md §3 C17"),
 "C18": ("exploration", "deterministic simulation with fault injection: authorizer snapshot written to a simulated disk (clean, torn, short, bit-flipped, lost, unsynced), verifier crash and restart, reload; restored-vs-original twin agreement on the clean disk, no-panic / still-usable on the faulty disk",
         "Seeded exploration; clean and faulty disk configurations are run separately so that the relaxation (no equivalence demanded after a disk fault) cannot hide an ordinary bug. Restoring authorizers carry non-default limits, near-duplicate rules and are also used query-only (query, load, query). Sampling.",
         "trusted: none for the twin half (model-free); a corrupted snapshot that still decodes is a different valid policy, so only no-panic is demanded there", "DESIGN.md §3 C18"),
 "C10": ("exploration", "deterministic simulation with fault injection: a Byzantine issuer (own wire writer, valid signatures, adversarial field values) and byte-level corruption in transit; every delivered byte string is exercised by holder and verifier operations; node crash = death of the worker OS process",
         "Seeded exploration (Byzantine blocks, hostile authorizer content incl. run-time mixed-type sets, long-lived authorizers whose first evaluation fails in a later block, clock stalls during hostile evaluations); oracle = no recovered panic on the calling goroutine and no death of the worker process, which is the only way a panic on a library-owned goroutine can be observed. Harness crashes are told apart (no library frame on the dying goroutine) and reported as exit 2, never as a violation. Sampling.",
         "trusted: the worker-death attribution rule (first frame of the dying goroutine inside biscuit-go/v2)", "DESIGN.md §3 C10"),
 "C19": ("exploration", "deterministic simulation of caller threads: seeded operation-level interleavings of 2-4 tasks on one shared token under the Go race detector, with a turn gate the detector cannot see (//go:norace), plus solo-run result equality",
         "Seeded exploration of interleavings; a data race is reported by the race detector whatever the distance in time between the two accesses because the scheduler contributes no happens-before edge; results of every operation must equal those of the same script run alone. Sampling; shadow-memory eviction can hide a pair, never invent one.",
         "trusted: Go race detector; the library has no lock/atomic whose critical section could be split, so operation granularity loses nothing for race detection", "DESIGN.md §3 C19"),
 "C20": ("fault_enumeration", "deterministic simulation with fault injection: simulated entropy source failing at every byte position; exhaustive enumeration of the failure point",
         "Fault enumeration: every drawing operation x 4 failure kinds (error, EOF, ErrUnexpectedEOF, an error that calls itself temporary) x EVERY k in [0,32] x 5 deliveries (a supplied source in 4 chunkings, and no supplied source with the simulated process-wide default crypto/rand.Reader being read; 1980 cases, exhaustive in k) on every run of the check, plus seeded random cases in longer histories: an operation whose draw failed returns an error and no token, does not panic, leaves its parent untouched and can be retried; a returned token's next secret equals the bytes actually delivered, its announced key is that seed's public key, and it verifies.",
         "trusted: bsim/ref envelope decoder, crypto/ed25519", "DESIGN.md §3 C20"),
}

NOT_APPLICABLE = {
 "C06": "pure function of an operator list and operand values: no goroutine, clock, I/O, shared state or history for a simulator to own; deciding it would be input generation against a second evaluator (property-based testing), not deterministic simulation (DESIGN.md §4)",
 "C14": "pure text -> value function of the parser: no schedule, clock, fault or multi-step state (concurrent use of one parser instance is covered under C19) (DESIGN.md §4)",
 "C15": "pure value -> text -> value round trip: no schedule, clock, fault or history beyond one deterministic round trip (DESIGN.md §4)",
}

ALL = ["C%02d" % i for i in range(1, 21)]
WIP = "check not built yet in this session (work in progress; see DESIGN.md §3 for the plan)"

def main():
    checks = []
    for pid in ALL:
        if pid not in CHECKS:
            continue
        cat, tech, text, note, ref = CHECKS[pid]
        checks.append({
            "property_id": pid,
            "quick_cmd": "./check %s quick" % pid,
            "thorough_cmd": "./check %s thorough" % pid,
            "evidence_file": "/verif/evidence/%s.json" % pid,
            "replay_cmd_template": "./check replay {path}",
            "engine": "bsim",
            "level_claimed": {"category": cat, "text": text, "design_ref": ref},
            "level_note": note,
            "technique": tech,
        })
    na = []
    for pid in ALL:
        if pid in CHECKS:
            continue
        na.append({"property_id": pid, "reason": NOT_APPLICABLE.get(pid, WIP)})
    m = {
        "version": 1,
        "setup_cmd": "./check build",
        "hooks": {
            "guard": "verif",
            "enable": "go build -tags verif (go1.26.8, GOTOOLCHAIN=local); the harness module /verif/bsim replaces github.com/biscuit-auth/biscuit-go/v2 => /repo, so every build compiles /repo's current working tree",
            "baseline_off_cmd": "cd /repo && GOFLAGS=-mod=mod GOPROXY=off GOSUMDB=off go test -vet=off -count=1 ./...",
            "source_commits": HOOK_COMMITS,
            "add_only": True,
        },
        "engines": [{
            "name": "bsim", "path": "/verif/bsim",
            "serves_properties": [c["property_id"] for c in checks],
            "kind_free_text": "in-process deterministic simulator: JSON plans (ops + faults + schedule tape + entropy) executed against the real library inside a testing/synctest bubble; yield scheduler over the datalog engine's goroutines, fake clock with plan-driven stalls, simulated entropy / transport / disk; oracles = history invariants + refinement against an independent reference model; ddmin-style minimiser; replay files",
        }],
        "checks": checks,
        "not_applicable": na,
        "notes": "All checks: exit 0 held, exit 1 with VIOLATION lines, exit 2 build/harness trouble (never a verdict). VERIF_SEED selects the seed (default 1); VERIF_RUNS overrides the number of runs. Known and fixed findings: /verif/known-findings.json.",
    }
    json.dump(m, open("/verif/MANIFEST.json", "w"), indent=1)
    print("wrote MANIFEST.json with", len(checks), "checks;", len(na), "not claimed")

main()

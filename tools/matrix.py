#!/usr/bin/env python3
"""Prints the catch matrix (markdown) from /verif/seeded/*/meta.json."""
import json, glob, os, re
rows = []
for d in sorted(glob.glob('/verif/seeded/*')):
    try:
        m = json.load(open(d + '/meta.json'))
    except Exception:
        continue
    mid = os.path.basename(d)
    if mid.startswith('R-'):
        rows.append((mid, m.get('property', ''), m.get('fix_subject', '')[:90], m.get('ran', ''), 'caught' if m.get('caught') else 'MISSED'))
    else:
        res = m.get('final_result') or m.get('checks_run', '')
        short = re.sub(r'\s+', ' ', m.get('summary', ''))[:160]
        verdicts = []
        for c, rc in re.findall(r'(C\d\d):exit=(\d)', res):
            verdicts.append('%s %s' % (c, {'1': 'caught', '0': 'missed', '2': 'harness-error'}.get(rc, rc)))
        rows.append((mid, m.get('property', ''), short, '; '.join(verdicts), ''))
print('| id | property | change | result |')
print('|---|---|---|---|')
for r in rows:
    print('| %s | %s | %s | %s %s |' % (r[0], r[1], r[2].replace('|', '/'), r[3], r[4]))

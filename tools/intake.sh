#!/bin/bash
# tools/intake.sh <prop> [check-prop...]  : confirm each /tmp/wt-<prop>/_out/m*, run the checks, file it under /verif/seeded/
set -u
p=$1; shift; checks=${*:-$p}
for d in ${WT:-/tmp/wt-}$p/_out/m*; do
  [ -f "$d/patch.diff" ] || continue
  i=$(basename $d); id=${IDP:-M}-$p-$i
  conf=$(${VERIF_SNAP:-/verif}/tools/confirm_mutant.sh "$d" 2>&1 | tail -1)
  res=""
  for c in $checks; do
    out=$(KEEP_REPLAY=/tmp/mutreplays/$id ${VERIF_SNAP:-/verif}/tools/runmutant.sh "$d/patch.diff" "$c" quick 2>&1)
    rc=$(echo "$out" | grep -o 'exit=[0-9]*' | tail -1)
    first=$(echo "$out" | grep '^violation' | head -2 | cut -c1-160 | tr '\n' ';')
    res="$res $c:$rc [$first]"
  done
  echo "$id | $conf |$res"
  if echo "$conf" | grep -q "suite_with_patch=pass demo_clean=pass demo_patched=fail"; then
    s=/verif/seeded/$id; mkdir -p "$s"; cp "$d/patch.diff" "$d/demo_test.go" "$s/"
    python3 - "$d/meta.json" "$s/meta.json" "$conf" "$res" <<'PY'
import json,sys
src,dst,conf,res=sys.argv[1:]
try: m=json.load(open(src))
except Exception: m={}
m['confirmed_by_me']=conf
m['checks_run']=res.strip()
m.pop('commands_run',None)
json.dump(m,open(dst,'w'),indent=1)
PY
  fi
done

#!/bin/bash
# tools/matrixrun.sh <id-glob> : for every seeded change matching the glob (e.g. 'M*', 'M3-C1*'), run the
# check of its own property plus the neighbouring checks named in tools/neighbours.txt against a scratch
# copy of /repo with the change applied, and record the verdicts in its meta.json ("checks_run").
set -u
V=${VERIF_SNAP:-/verif}
for s in /verif/seeded/$1; do
  [ -f "$s/patch.diff" ] || continue
  id=$(basename $s); p=$(echo $id | grep -o 'C[0-9][0-9]')
  checks="$p $(grep "^$id " $V/tools/neighbours.txt 2>/dev/null | cut -d' ' -f2-)"
  res=""
  for c in $checks; do
    out=$(VERIF_SNAP=$V $V/tools/runmutant.sh "$s/patch.diff" "$c" quick 2>&1)
    rc=$(echo "$out" | grep -o 'exit=[0-9]*' | tail -1)
    first=$(echo "$out" | grep '^violation' | head -2 | cut -c1-160 | tr '\n' ';')
    res="$res $c:$rc [$first]"
  done
  echo "$id |$res"
  python3 - "$s/meta.json" "$res" <<'PY'
import json,sys
f,res=sys.argv[1:]
try: m=json.load(open(f))
except Exception: m={}
m['checks_run']=res.strip()
json.dump(m,open(f,'w'),indent=1)
PY
done

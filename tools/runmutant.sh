#!/bin/bash
# tools/runmutant.sh <patch.diff> <property> [quick|thorough] [seed]
# Applies the patch to a scratch copy of /repo (outside /repo and /verif), runs the
# property's check against that copy with evidence/replays redirected to a scratch
# directory, prints the verdict and removes everything again.
set -u
patch=$(readlink -f "$1"); prop=$2; tier=${3:-quick}; seed=${4:-1}
work=$(mktemp -d /tmp/mutant-XXXXXX)
trap 'rm -rf "$work"' EXIT
# seeded changes were written against /repo at 13833c8 (all fixes up to D5); later fix commits may
# touch the same lines, then the change is applied to the tree it was written for
git -C /repo archive HEAD | tar -x -C "$work" --one-top-level=repo
if ! (cd "$work/repo" && patch -p1 -s --dry-run < "$patch" >/dev/null 2>&1); then
  rm -rf "$work/repo"; git -C /repo archive ${MUTANT_BASE:-13833c8} | tar -x -C "$work" --one-top-level=repo
  echo "NOTE: patch does not apply to HEAD, applied to ${MUTANT_BASE:-13833c8}"
fi
if ! (cd "$work/repo" && patch -p1 -s < "$patch"); then echo "PATCH-FAILED"; exit 3; fi
mkdir -p "$work/verif/.build" "$work/build"
cp /verif/known-findings.json "$work/verif/"
BSIM_REPO="$work/repo" BSIM_VERIF="$work/verif" BSIM_BUILD="$work/build" VERIF_SEED=$seed ${VERIF_SNAP:-/verif}/check "$prop" "$tier" > "$work/out.txt" 2>&1
rc=$?
grep -E "^violation|^VIOLATION|^KNOWN|^done|^INTERNAL|^BUILD|^WATCHDOG" "$work/out.txt" | cut -c1-300 | head -12
if [ -n "${KEEP_REPLAY:-}" ] && ls "$work/verif/replays/"*.json >/dev/null 2>&1; then mkdir -p "$KEEP_REPLAY"; cp "$work/verif/replays/"*.json "$KEEP_REPLAY/"; fi
echo "exit=$rc"
exit $rc

//go:build !race

package race

const Enabled = false

//go:build race

package race

// Enabled reports whether the binary was built with the race detector.
const Enabled = true

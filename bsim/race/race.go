// Package race executes C19 plans: several caller tasks use ONE token, one
// parsed authorizer/block value and one parser instance. The turn order comes
// from the plan; the hand-over between tasks goes through a plain word that is
// read and written only in //go:norace functions, so the race detector sees no
// synchronisation between tasks and reports every conflicting access pair,
// while the execution itself is strictly serial and therefore repeatable.
package race

import (
	"crypto/ed25519"
	"encoding/hex"
	"errors"
	"fmt"
	"os"
	"runtime"
	"sort"
	"strings"
	"sync"
	"time"

	biscuit "github.com/biscuit-auth/biscuit-go/v2"
	"github.com/biscuit-auth/biscuit-go/v2/datalog"
	"github.com/biscuit-auth/biscuit-go/v2/parser"

	"bsim/lower"
	"bsim/vm"
)

var turn int32

//go:norace
//go:noinline
func loadTurn() int32 { return turn }

//go:norace
//go:noinline
func storeTurn(v int32) { turn = v }

//go:norace
func waitTurn(me int32) {
	for n := 0; loadTurn() != me; n++ {
		if n < 20 {
			runtime.Gosched()
		} else {
			time.Sleep(20 * time.Microsecond) // no happens-before edge either; keeps waiting tasks off the CPU
		}
	}
}

type shared struct {
	tok    *biscuit.Biscuit
	pub    ed25519.PublicKey
	parsedAz  biscuit.ParsedAuthorizer
	parsedBlk biscuit.ParsedBlock
	prs    parser.Parser
	// the verifiers' configuration values, made once and used by every task: a key source and the
	// evaluation limits (option values are part of what callers share when they share a token)
	keys biscuit.PublickKeyByIDProjection
	long biscuit.AuthorizerOption
}

// setup builds the shared values from the plan's first op; everything here
// happens before the tasks start (goroutine creation orders it before them).
func setup(op *vm.Op) (*shared, error) {
	seed, _ := hex.DecodeString(op.Seed)
	if len(seed) != 32 {
		return nil, errors.New("bad seed")
	}
	priv := ed25519.NewKeyFromSeed(seed)
	s := &shared{pub: priv.Public().(ed25519.PublicKey), prs: parser.New()}
	ent := func(i int) *vm.SimRand {
		b := make([]byte, 32)
		copy(b, seed)
		b[0] ^= byte(i + 1)
		b[7] ^= 0x33
		return vm.NewSimRand(&vm.Entropy{Bytes: hex.EncodeToString(b)})
	}
	bld := biscuit.NewBuilder(priv, biscuit.WithRNG(ent(0)))
	if op.Blk != nil {
		for _, f := range op.Blk.Facts {
			bld.AddAuthorityFact(lower.Fact(f))
		}
		for _, r := range op.Blk.Rules {
			bld.AddAuthorityRule(lower.Rule(r))
		}
		for _, c := range op.Blk.Checks {
			bld.AddAuthorityCheck(lower.Check(c))
		}
	}
	tok, err := bld.Build()
	if err != nil {
		return nil, err
	}
	for i := 0; i < op.N; i++ {
		bb := tok.CreateBlock()
		bb.AddFact(biscuit.Fact{Predicate: biscuit.Predicate{Name: fmt.Sprintf("level%d", i), IDs: []biscuit.Term{biscuit.Integer(i), biscuit.String(fmt.Sprintf("blk-string-%d", i))}}})
		bb.AddCheck(biscuit.Check{Queries: []biscuit.Rule{{Head: biscuit.Predicate{Name: "query"}, Body: []biscuit.Predicate{{Name: fmt.Sprintf("level%d", i), IDs: []biscuit.Term{biscuit.Variable("l"), biscuit.Variable("s")}}}}}})
		tok, err = tok.Append(ent(i+1), bb.Build())
		if err != nil {
			return nil, err
		}
	}
	if op.Has("sealed") {
		if tok, err = tok.Seal(ent(100)); err != nil {
			return nil, err
		}
	}
	if op.Has("reloaded") {
		b, err := tok.Serialize()
		if err != nil {
			return nil, err
		}
		if tok, err = biscuit.Unmarshal(b); err != nil {
			return nil, err
		}
	}
	s.tok = tok
	other := ed25519.NewKeyFromSeed(seed2(seed)).Public().(ed25519.PublicKey)
	s.keys = biscuit.WithRootPublicKeys(map[uint32]ed25519.PublicKey{7: other, 9: other}, &s.pub)
	if op.Has("shared-options") {
		s.long = biscuit.WithWorldOptions(datalog.WithMaxDuration(time.Hour))
	}
	if s.parsedAz, err = s.prs.Authorizer(op.Data, nil); err != nil {
		return nil, fmt.Errorf("shared authorizer source: %w", err)
	}
	if s.parsedBlk, err = s.prs.Block(op.Name, nil); err != nil {
		return nil, fmt.Errorf("shared block source: %w", err)
	}
	return s, nil
}

func seed2(seed []byte) []byte {
	b := append([]byte{}, seed...)
	b[3] ^= 0x5c
	return b
}

func errc(err error) string {
	if err == nil {
		return "ok"
	}
	return "err:" + vm.ClassifyAuthz(err) + ":" + err.Error()
}

// do performs one task operation on the shared values and renders its result.
func do(s *shared, op *vm.Op) (out string) {
	defer func() {
		if r := recover(); r != nil {
			out = fmt.Sprintf("PANIC %v", r)
		}
	}()
	long := s.long
	if long == nil {
		long = biscuit.WithWorldOptions(datalog.WithMaxDuration(time.Hour))
	}
	switch op.K {
	case "authorizerForKeys":
		a, err := s.tok.AuthorizerFor(s.keys, long)
		if err != nil {
			return errc(err)
		}
		a.AddAuthorizer(s.parsedAz)
		return errc(a.Authorize())
	case "authorizerFor":
		_, err := s.tok.AuthorizerFor(biscuit.WithSingularRootPublicKey(s.pub), long)
		return errc(err)
	case "authorizer":
		_, err := s.tok.Authorizer(s.pub, long)
		return errc(err)
	case "authorize":
		a, err := s.tok.AuthorizerFor(biscuit.WithSingularRootPublicKey(s.pub), long)
		if err != nil {
			return errc(err)
		}
		a.AddAuthorizer(s.parsedAz)
		res := errc(a.Authorize())
		for _, r := range s.parsedBlk.Rules {
			fs, err := a.Query(r)
			strs := []string{}
			for _, f := range fs {
				strs = append(strs, f.String())
			}
			sort.Strings(strs)
			res += " | " + errc(err) + " " + strings.Join(strs, ",")
		}
		return res
	case "string":
		return s.tok.String()
	case "code":
		return strings.Join(s.tok.Code(), "\n")
	case "blockid":
		id, err := s.tok.GetBlockID(lower.Fact(*op.F))
		return fmt.Sprintf("%d %s", id, errc(err))
	case "createblock":
		bb := s.tok.CreateBlock()
		err := bb.AddBlock(s.parsedBlk)
		blk := bb.Build()
		return errc(err) + " " + blk.String(&datalog.SymbolTable{})
	case "append":
		bb := s.tok.CreateBlock()
		bb.AddBlock(s.parsedBlk)
		nt, err := s.tok.Append(vm.NewSimRand(op.Ent), bb.Build())
		if err != nil {
			return errc(err)
		}
		b, _ := nt.Serialize()
		return fmt.Sprintf("ok %x", b)
	case "append_default_rng":
		// the library picks its own randomness (nil reader): the result is random, only its
		// class is compared with the solo run; what matters here is the race detector
		bb := s.tok.CreateBlock()
		bb.AddBlock(s.parsedBlk)
		nt, err := s.tok.Append(nil, bb.Build())
		if err != nil {
			return errc(err)
		}
		return fmt.Sprintf("ok %d blocks", nt.BlockCount())
	case "seal":
		nt, err := s.tok.Seal(vm.NewSimRand(&vm.Entropy{}))
		if err != nil {
			return errc(err)
		}
		b, _ := nt.Serialize()
		return fmt.Sprintf("ok %x", b)
	case "serialize":
		b, err := s.tok.Serialize()
		return fmt.Sprintf("%s %x", errc(err), b)
	case "revids":
		return fmt.Sprintf("%x", s.tok.RevocationIds())
	case "checks":
		return fmt.Sprintf("%d", len(s.tok.Checks()))
	case "misc":
		return fmt.Sprintf("%d %v %q", s.tok.BlockCount(), s.tok.RootKeyID(), s.tok.GetContext())
	case "parse_block":
		b, err := s.prs.Block(op.Data, nil)
		return fmt.Sprintf("%s %d %d %d", errc(err), len(b.Facts), len(b.Rules), len(b.Checks))
	case "parse_fact":
		f, err := s.prs.Fact(op.Data, nil)
		return errc(err) + " " + f.String()
	case "parse_rule":
		r, err := s.prs.Rule(op.Data, nil)
		return fmt.Sprintf("%s %s %d", errc(err), r.Head.String(), len(r.Body))
	case "parse_authorizer":
		a, err := s.prs.Authorizer(op.Data, nil)
		return fmt.Sprintf("%s %d %d", errc(err), len(a.Policies), len(a.Block.Facts))
	}
	return "unknown op " + op.K
}

// Run executes a C19 plan.
func Run(p *vm.Plan, trace bool) *vm.Result {
	res := &vm.Result{Run: p.Run, PlanHash: p.Hash(), Probes: map[string]int{}, Faults: map[string]int{}}
	if !Enabled {
		res.Internal = "C19 needs the binary built with -race"
		return res
	}
	if len(p.Ops) == 0 || p.Ops[0].K != "race" {
		res.Internal = "not a C19 plan"
		return res
	}
	op := &p.Ops[0]
	ntask := len(op.Tasks)
	// solo reference: every task script alone on an identical (separately built) token
	solo := make([][]string, ntask)
	for t := 0; t < ntask; t++ {
		s, err := setup(op)
		if err != nil {
			res.Internal = "setup: " + err.Error()
			return res
		}
		for i := range op.Tasks[t] {
			solo[t] = append(solo[t], do(s, &op.Tasks[t][i]))
		}
	}
	before := raceLogSize()
	s, err := setup(op)
	if err != nil {
		res.Internal = "setup: " + err.Error()
		return res
	}
	got := make([][]string, ntask)
	pos := make([]int, ntask)
	// the effective turn sequence: the plan's order, then round-robin until every script is finished
	var seq []int32
	remaining := make([]int, ntask)
	total := 0
	for t := range remaining {
		remaining[t] = len(op.Tasks[t])
		total += remaining[t]
	}
	oi := 0
	for len(seq) < total {
		var t int
		if oi < len(p.Order) {
			t = ((p.Order[oi] % ntask) + ntask) % ntask
		} else {
			t = oi % ntask
		}
		oi++
		for k := 0; k < ntask && remaining[t] == 0; k++ {
			t = (t + 1) % ntask
		}
		remaining[t]--
		seq = append(seq, int32(t))
	}
	// turn values: position index in seq; task t waits until seq[turn]==t
	storeTurn(0)
	var wg sync.WaitGroup
	myTurns := make([][]int32, ntask)
	for i, t := range seq {
		myTurns[t] = append(myTurns[t], int32(i))
	}
	for t := 0; t < ntask; t++ {
		wg.Add(1)
		go func(t int) {
			defer wg.Done()
			for _, ti := range myTurns[t] {
				waitTurn(ti)
				got[t] = append(got[t], do(s, &op.Tasks[t][pos[t]]))
				pos[t]++
				storeTurn(ti + 1)
			}
		}(t)
	}
	wg.Wait()
	res.Ops = total
	res.Steps = total
	res.Probes["race_interleaved_ops"] += total
	switches := 0
	for i := 1; i < len(seq); i++ {
		if seq[i] != seq[i-1] {
			switches++
		}
	}
	res.Probes["race_task_switches"] += switches
	res.SchedHash = fmt.Sprintf("%x", seq)
	res.EventHash = res.SchedHash
	res.States = []string{fmt.Sprintf("%d-tasks-%d-ops-%v", ntask, total, op.Flags)}
	// oracle 2: same results as alone
	for t := 0; t < ntask; t++ {
		for i := range got[t] {
			if i < len(solo[t]) && got[t][i] != solo[t][i] {
				k := op.Tasks[t][i].K
				res.Violations = append(res.Violations, vm.Violation{Prop: "C19", Invariant: "result-differs-from-solo", Sig: "result of " + k + " differs from running alone",
					Detail: fmt.Sprintf("task %d op %d (%s):\n alone:      %s\n concurrent: %s", t, i, k, clip(solo[t][i]), clip(got[t][i]))})
			}
			if strings.HasPrefix(got[t][i], "PANIC") {
				res.Violations = append(res.Violations, vm.Violation{Prop: "C19", Invariant: "panic", Sig: "panic in " + op.Tasks[t][i].K, Detail: got[t][i]})
			}
		}
	}
	// oracle 1: no data race report
	reports := readRaceLog(before)
	for _, rp := range reports {
		a, b := libFrames(rp)
		if a == "" && b == "" {
			res.Internal = "race report without library frames (harness race?):\n" + clip(rp)
			continue
		}
		pair := []string{a, b}
		sort.Strings(pair)
		res.Violations = append(res.Violations, vm.Violation{Prop: "C19", Invariant: "data-race", Sig: "data race: " + pair[0] + " / " + pair[1], Detail: clip(rp)})
	}
	res.Probes["race_reports"] += len(reports)
	res.Nontrivial = switches > 0
	return res
}

func clip(s string) string {
	if len(s) > 1800 {
		return s[:1800] + "…"
	}
	return s
}

func raceLogPath() string {
	base := os.Getenv("BSIM_RACELOG")
	if base == "" {
		return ""
	}
	return fmt.Sprintf("%s.%d", base, os.Getpid())
}

func raceLogSize() int64 {
	st, err := os.Stat(raceLogPath())
	if err != nil {
		return 0
	}
	return st.Size()
}

func readRaceLog(from int64) []string {
	data, err := os.ReadFile(raceLogPath())
	if err != nil || int64(len(data)) <= from {
		return nil
	}
	txt := string(data[from:])
	var out []string
	for _, blk := range strings.Split(txt, "==================") {
		if strings.Contains(blk, "DATA RACE") {
			out = append(out, strings.TrimSpace(blk))
		}
	}
	return out
}

// libFrames returns the first library function of each of the two racing stacks.
func libFrames(report string) (string, string) {
	var frames []string
	cur := ""
	inStack := false
	for _, ln := range strings.Split(report, "\n") {
		t := strings.TrimSpace(ln)
		switch {
		case strings.HasPrefix(t, "Write at") || strings.HasPrefix(t, "Read at") || strings.HasPrefix(t, "Previous write at") || strings.HasPrefix(t, "Previous read at"):
			if inStack {
				frames = append(frames, cur)
			}
			cur, inStack = "", true
		case strings.HasPrefix(t, "Goroutine "):
			if inStack {
				frames = append(frames, cur)
			}
			inStack = false
		case inStack && cur == "" && strings.Contains(t, "biscuit-go/v2") && strings.HasSuffix(t, ")") && !strings.HasPrefix(t, "/"):
			f := t
			if i := strings.LastIndex(f, "("); i > 0 {
				f = f[:i]
			}
			cur = strings.TrimPrefix(f, "github.com/biscuit-auth/biscuit-go/v2")
		}
	}
	if inStack {
		frames = append(frames, cur)
	}
	for len(frames) < 2 {
		frames = append(frames, "")
	}
	return frames[0], frames[1]
}

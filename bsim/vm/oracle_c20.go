package vm

import (
	"bytes"
	"crypto/ed25519"
	"encoding/hex"
	"fmt"

	biscuit "github.com/biscuit-auth/biscuit-go/v2"

	"bsim/ref"
)

// EntropyOracle: C20. An operation whose entropy source failed returns an
// error and no token; a returned token's next key pair is the one derived from
// the bytes actually delivered, and the token verifies.
type EntropyOracle struct{}

func (EntropyOracle) AfterStep(m *VM, rec *Rec) {
	switch rec.K {
	case "build", "bldbuild", "append", "attenuate":
	case "seal":
		if rec.Ints["entropy_calls"] > 0 {
			m.Probe("seal_drew_entropy")
		}
		return
	default:
		return
	}
	if rec.Panic != "" || m.CurRand == nil {
		return
	}
	op := &m.Plan.Ops[rec.I]
	tok := m.Tok(op.Out)
	if tok != nil && tok.Created != rec.I {
		tok = nil
	}
	rnd := m.CurRand
	if rnd.Failed {
		m.Probe("entropy_failure_during_draw")
		if rec.Err == "" || tok != nil {
			m.Violate("C20", "result-after-entropy-failure", "entropy failed but "+rec.K+" returned success or a token",
				fmt.Sprintf("op %d (%s): the source failed after delivering %d bytes, yet err=%q token=%v", rec.I, rec.K, len(rnd.Delivered), rec.Err, tok != nil))
		}
		return
	}
	if tok == nil {
		return
	}
	m.Probe("token_with_healthy_entropy")
	given := rnd.Delivered[rnd.OpStart:] // what this very operation was handed
	if len(given) < 32 {
		m.Violate("C20", "token-without-entropy", rec.K+" returned a token although fewer than 32 bytes were delivered",
			fmt.Sprintf("op %d: delivered %d bytes", rec.I, len(given)))
		return
	}
	seed := given[:32]
	ser, err := tok.B.Serialize()
	if err != nil {
		return
	}
	env, err := ref.DecodeBiscuit(ser)
	if err != nil {
		m.Violate("C20", "token-undecodable", "token built with healthy entropy does not decode", err.Error())
		return
	}
	if !bytes.Equal(env.NextSecret, seed) {
		m.Violate("C20", "next-secret-not-from-entropy", "next secret differs from the delivered bytes",
			fmt.Sprintf("op %d: delivered %x, proof next secret %x", rec.I, seed, env.NextSecret))
		return
	}
	all := env.All()
	want := ed25519.NewKeyFromSeed(seed).Public().(ed25519.PublicKey)
	if !bytes.Equal(all[len(all)-1].Key, want) {
		m.Violate("C20", "next-key-not-from-entropy", "announced next key is not the public key of the delivered seed",
			fmt.Sprintf("op %d: announced %x, want %x", rec.I, all[len(all)-1].Key, want))
		return
	}
	if k := m.Key(tok.RootKey); k != nil {
		if err := ref.VerifyChain(env, k.Pub); err != nil {
			m.Violate("C20", "token-does-not-verify", "token built with healthy entropy fails the reference chain walk", err.Error())
		}
		if _, err := tok.B.AuthorizerFor(biscuit.WithSingularRootPublicKey(k.Pub)); err != nil {
			m.Violate("C20", "token-does-not-verify", "token built with healthy entropy is rejected by the library", err.Error())
		}
	}
	_ = hex.EncodeToString
}

func (EntropyOracle) AtEnd(m *VM) {}

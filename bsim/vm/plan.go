// Package vm executes plans: a plan is the complete, literal description of one
// simulated run (operations with their arguments, faults, schedule tape,
// entropy). Executing a plan reads nothing but the plan.
package vm

import (
	"crypto/sha256"
	"encoding/hex"
	"encoding/json"

	"bsim/ref"
	"bsim/sched"
)

type ReadStep struct {
	Kind string `json:"kind"` // "all" deliver what is asked, "short" deliver at most N, "zero" (0,nil), "err", "eof", "ueof"
	N    int    `json:"n,omitempty"`
}

// Entropy is everything a simulated random source will ever deliver.
type Entropy struct {
	Bytes  string     `json:"bytes"`            // hex; delivered in order
	Script []ReadStep `json:"script,omitempty"` // behaviour of successive Read calls; afterwards "all"; stream exhausted => EOF
	// Default: the caller passes NO entropy source (nil reader / no WithRNG option); the simulated
	// source is installed as the process-wide default (crypto/rand.Reader) for the duration of the call
	Default bool `json:"default,omitempty"`
}

type Lim struct {
	MaxFacts int   `json:"max_facts,omitempty"`
	MaxIter  int   `json:"max_iter,omitempty"`
	MaxDurNs int64 `json:"max_dur_ns,omitempty"`
}

type KeyEntry struct {
	ID  uint32 `json:"id"`
	Key int    `json:"key"`
}

// KeySel says how the verifier picks the root key.
type KeySel struct {
	Key int        `json:"key,omitempty"` // single key slot (WithSingularRootPublicKey / Authorizer)
	Map []KeyEntry `json:"map,omitempty"`
	Def int        `json:"def,omitempty"` // default key slot, 0 = none
	UseMap bool    `json:"use_map,omitempty"`
	DefEmpty bool  `json:"def_empty,omitempty"` // a default key is configured but empty: there is no usable default
	Empty  []uint32 `json:"empty,omitempty"`    // ids registered with an empty key: no usable key under them
	Raw string     `json:"raw,omitempty"` // hex of a literal 32-byte key (random / zero key)
}

// Mut is one mutation of bytes in flight or at rest.
type Mut struct {
	Kind string `json:"kind"`
	Pos  int    `json:"pos,omitempty"`
	Val  int    `json:"val,omitempty"`
	I    int    `json:"i,omitempty"`
	J    int    `json:"j,omitempty"`
	Key  int    `json:"key,omitempty"` // attacker key slot
	Data string `json:"data,omitempty"`
}

type Op struct {
	K   string `json:"k"`
	Out int    `json:"out,omitempty"`
	A   int    `json:"a,omitempty"`
	B   int    `json:"b,omitempty"`
	C   int    `json:"c,omitempty"`

	Blk    *ref.Block  `json:"blk,omitempty"`
	Az     *ref.Authz  `json:"az,omitempty"`
	Qs     []ref.Rule  `json:"qs,omitempty"`
	F      *ref.Pred   `json:"f,omitempty"`
	Ent    *Entropy    `json:"ent,omitempty"`
	Muts   []Mut       `json:"muts,omitempty"`
	Lim    *Lim        `json:"lim,omitempty"`
	KS     *KeySel     `json:"ks,omitempty"`
	RootID *uint32     `json:"root_id,omitempty"`
	Seed   string      `json:"seed,omitempty"`
	Data   string      `json:"data,omitempty"`
	Via    string      `json:"via,omitempty"`
	N      int         `json:"n,omitempty"`
	Perm   []int       `json:"perm,omitempty"`
	Map    []int       `json:"map,omitempty"` // C03: index in this lineage of block i of the twin lineage
	Flags  []string    `json:"flags,omitempty"`
	Name   string      `json:"name,omitempty"`
	Tasks  [][]Op      `json:"tasks,omitempty"` // C19: task scripts
	Base   []string    `json:"base,omitempty"`  // caller-supplied base symbol table (WithSymbols / Unmarshaler.Symbols)
}

func (o *Op) Has(flag string) bool {
	for _, f := range o.Flags {
		if f == flag {
			return true
		}
	}
	return false
}

type Plan struct {
	Property string        `json:"property"`
	Profile  string        `json:"profile"`
	Seed     int64         `json:"seed"`
	Run      int           `json:"run"`
	Note     string        `json:"note,omitempty"`
	Ops      []Op          `json:"ops"`
	Faults   []sched.Fault `json:"faults,omitempty"`
	Tape     []uint32      `json:"tape,omitempty"`
	Order    []int         `json:"order,omitempty"` // C19: turn order over tasks
	Lazy     bool          `json:"lazy_drain,omitempty"` // goroutines left behind by a call keep running during later calls
	// Replayed: every entropy source of this history delivers the same 32 bytes (a deterministic
	// source, legal input): identical signing events legitimately share their identifier
	Replayed bool `json:"replayed_entropy,omitempty"`
}

func (p *Plan) JSON() []byte {
	b, _ := json.Marshal(p)
	return b
}

func (p *Plan) Hash() string {
	h := sha256.Sum256(p.JSON())
	return hex.EncodeToString(h[:8])
}

func (p *Plan) Clone() *Plan {
	var n Plan
	_ = json.Unmarshal(p.JSON(), &n)
	return &n
}

// Violation is one oracle failure.
type Violation struct {
	Prop      string `json:"prop"`
	Invariant string `json:"invariant"`
	Detail    string `json:"detail"`
	Step      int    `json:"step"`
	Sig       string `json:"sig"` // stable signature used to match known findings and to keep the same class while minimising
}

func (v Violation) Key() string { return v.Prop + "/" + v.Invariant }

// Result is what executing one plan produced.
type Result struct {
	Run        int            `json:"run"`
	PlanHash   string         `json:"plan_hash"`
	Violations []Violation    `json:"violations,omitempty"`
	Probes     map[string]int `json:"probes,omitempty"`
	Faults     map[string]int `json:"faults,omitempty"`
	Steps      int            `json:"steps"`
	Ops        int            `json:"ops"`
	SimNs      int64          `json:"sim_ns"`
	StallNs    int64          `json:"stall_ns"`
	SchedHash  string         `json:"sched_hash"`
	EventHash  string         `json:"event_hash"`
	States     []string       `json:"states,omitempty"`
	Nontrivial bool           `json:"nontrivial"`
	Internal   string         `json:"internal,omitempty"` // harness error: exit 2 material
	Trace      []string       `json:"trace,omitempty"`
	Sites      map[string]int `json:"sites,omitempty"`
}

package vm

import (
	"fmt"
	"strings"

	"github.com/biscuit-auth/biscuit-go/v2/datalog"

	"bsim/ref"
)

// ContentProblem compares what the token's bytes carry (independent decoder)
// with what the token's own callers put in. "" means equal.
func ContentProblem(t *TokObj) string { return contentProblem(t, true) }

// contentProblem with schema=false ignores the symbol-table layout rules (they are C07's
// subject) and only compares the resolved content.
func contentProblem(t *TokObj, schema bool) string {
	if t.Abs == nil || t.B == nil {
		return ""
	}
	ser, err := t.B.Serialize()
	if err != nil {
		return "serialize: " + err.Error()
	}
	got, _, problems, err := ref.DecodeTokenBase(ser, t.Base)
	if err != nil {
		return "independent decoder cannot read the token: " + err.Error()
	}
	if schema && len(problems) > 0 {
		return "schema rules broken: " + strings.Join(problems, "; ")
	}
	if len(got.Blocks) != len(t.Abs.Blocks) {
		return fmt.Sprintf("block count %d, callers supplied %d", len(got.Blocks), len(t.Abs.Blocks))
	}
	for i := range got.Blocks {
		if g, w := got.Blocks[i].Canon(), t.Abs.Blocks[i].Canon(); g != w {
			return fmt.Sprintf("block %d carries\n  %s\nbut its caller supplied\n  %s", i, g, w)
		}
	}
	if got.Sealed != t.Abs.Sealed {
		return fmt.Sprintf("sealed=%v, expected %v", got.Sealed, t.Abs.Sealed)
	}
	return ""
}

func blkFP(b *BlkObj) string {
	e := &datalog.SymbolTable{}
	return b.Blk.String(e) + "\n" + b.Blk.Code(e)
}

// ImmutOracle: C08. Every live token and built block keeps its fingerprint
// after every step, and on creation contains exactly what its callers put in.
type ImmutOracle struct{ Prop string }

type immutState struct {
	fp      map[int]string
	created map[int]int
}

func (o ImmutOracle) st(m *VM) *immutState {
	s, _ := m.Ext["immut"].(*immutState)
	if s == nil {
		s = &immutState{fp: map[int]string{}, created: map[int]int{}}
		m.Ext["immut"] = s
	}
	return s
}

func (o ImmutOracle) AfterStep(m *VM, rec *Rec) {
	if rec.Panic != "" {
		return
	}
	s := o.st(m)
	for i, sl := range m.Slots {
		var fp string
		switch ob := sl.(type) {
		case *TokObj:
			fp = Fingerprint(ob.B)
		case *BlkObj:
			fp = blkFP(ob)
		default:
			if _, had := s.fp[i]; had { // slot was cleared (crash): forget
				delete(s.fp, i)
			}
			continue
		}
		old, had := s.fp[i]
		if !had || rec.Out == i {
			s.fp[i] = fp
			s.created[i] = rec.I
			if t, ok := sl.(*TokObj); ok && !t.Hostile {
				if p := contentProblem(t, false); p != "" {
					m.Probe("content_mismatch_on_creation")
					m.Violate(o.Prop, "content-differs-from-callers-input", "token created by "+rec.K+" does not contain what its callers put in",
						fmt.Sprintf("op %d (%s) produced token in slot %d: %s", rec.I, rec.K, i, p))
				}
			}
			continue
		}
		if old != fp {
			m.Violate(o.Prop, "live-object-changed", "an existing object changed after "+rec.K,
				fmt.Sprintf("object in slot %d (created by op %d) changed after op %d (%s):\n%s", i, s.created[i], rec.I, rec.K, firstDiff(old, fp)))
			s.fp[i] = fp
		}
	}
	if len(s.fp) >= 2 {
		m.Probe("immut_checked_2plus_live_objects")
	}
}

func (o ImmutOracle) AtEnd(m *VM) {}

func firstDiff(a, b string) string {
	la, lb := strings.Split(a, "\n"), strings.Split(b, "\n")
	for i := 0; i < len(la) && i < len(lb); i++ {
		if la[i] != lb[i] {
			return fmt.Sprintf("line %d:\n  before: %s\n  after:  %s", i, clipS(la[i]), clipS(lb[i]))
		}
	}
	return fmt.Sprintf("length %d -> %d lines", len(la), len(lb))
}

func clipS(s string) string {
	if len(s) > 400 {
		return s[:400] + "…"
	}
	return s
}

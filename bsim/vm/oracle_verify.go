package vm

import (
	"fmt"
	"sort"
	"strings"

	"bsim/ref"
)

func mapClass(c string) string {
	if c == ref.VCheckFail {
		return "fail"
	}
	return c
}

func idsStr(ids []ref.CheckID) string {
	s := make([]string, len(ids))
	for i, c := range ids {
		s[i] = c.String()
	}
	sort.Strings(s)
	return strings.Join(s, ",")
}

// RefOutcome computes (and caches per record) the reference decision for a verify record.
func (m *VM) RefOutcome(rec *Rec) (*ref.Outcome, bool) {
	if rec.V == nil || rec.V.Az == nil {
		return nil, false
	}
	t := m.Tok(rec.V.Tok)
	if t == nil || t.Abs == nil {
		return nil, false
	}
	key := fmt.Sprintf("refout%d", rec.I)
	if o, ok := m.Ext[key].(*ref.Outcome); ok {
		return o, true
	}
	o := ref.Authorize(t.Abs, *rec.V.Az, refCap)
	m.Ext[key] = &o
	return &o, true
}

// VerdictOracle: the verdict follows the decision procedure (C04); limits make
// authorization fail and are honoured by every constructor (C11 S5).
type VerdictOracle struct {
	Prop   string // property to which verdict mismatches are attributed
	Limits bool   // also apply the C11 clauses
}

func (o VerdictOracle) AfterStep(m *VM, rec *Rec) {
	if (rec.K != "verify" && rec.K != "azauth") || rec.V == nil || rec.Panic != "" || rec.V.Class == "" || rec.V.Class == "queried" {
		return
	}
	v := rec.V
	out, ok := m.RefOutcome(rec)
	if !ok {
		return
	}
	if out.Uncertain {
		m.Probe("verdict_outside_fragment")
		return
	}
	maxFacts, maxIter, maxDur := limOf(v.Lim)
	if v.Via == "NewVerifier" || v.Via == "Authorizer" || v.Via == "" || v.Via == "AuthorizerFor" {
		// every constructor accepts options
	}
	clockMoved := rec.Call.StallNs > 0 || rec.Call.Idle > 0
	size, depth := out.MaxSize(), out.MaxDepth()
	clear := size*2 < maxFacts && (depth+1)*2 < maxIter
	m.Probe("verdict_" + v.Class)
	if clear && !clockMoved {
		want := mapClass(out.Class)
		if v.Class != want {
			m.Violate(o.Prop, "verdict-mismatch", fmt.Sprintf("verdict %s, reference %s", v.Class, want),
				fmt.Sprintf("op %d: library verdict %q (%s), reference %q (failed checks %s, first matching policy %d)\ntoken: %s\nauthorizer: %s", rec.I, v.Class, v.ErrText, out.Class, idsStr(out.FailedChecks), out.PolicyIndex, m.Tok(v.Tok).Abs.Canon(), v.Az.Canon()))
			return
		}
		if want == "fail" && len(v.Failed) > 0 {
			if m.Plan.Ops[rec.I].Has("permute-checks") || rec.K == "azauth" {
				// check indexes follow the order of insertion, which this run permuted
				if len(v.Failed) != len(out.FailedChecks) {
					m.Violate(o.Prop, "failed-check-set", "number of failed checks differs from reference", fmt.Sprintf("op %d: library %d, reference %d", rec.I, len(v.Failed), len(out.FailedChecks)))
				}
			} else if idsStr(v.Failed) != idsStr(out.FailedChecks) {
				m.Violate(o.Prop, "failed-check-set", "set of failed checks differs from reference",
					fmt.Sprintf("op %d: library reports failed checks {%s}, reference {%s}\ntoken: %s\nauthorizer: %s", rec.I, idsStr(v.Failed), idsStr(out.FailedChecks), m.Tok(v.Tok).Abs.Canon(), v.Az.Canon()))
			}
		}
		// probes for the interesting corners
		if out.Class == ref.VCheckFail && out.PolicyIndex >= 0 {
			m.Probe("checkfail_with_matching_policy")
		}
		if out.PolicyIndex > 0 {
			m.Probe("policy_not_first_matches")
		}
	}
	if !o.Limits {
		return
	}
	// C11 S5: a limit that is certainly exceeded must make authorization fail with a limit error
	exceeded := ""
	if out.AuthoritySize > maxFacts {
		exceeded = fmt.Sprintf("authority-level closure has %d facts > maxFacts %d", out.AuthoritySize, maxFacts)
	}
	for i, s := range out.BlockSizes {
		if s > maxFacts && exceeded == "" {
			exceeded = fmt.Sprintf("block %d world has %d facts > maxFacts %d", i+1, s, maxFacts)
		}
	}
	if exceeded == "" && out.AuthorityDepth >= 2*maxIter+2 {
		exceeded = fmt.Sprintf("authority-level closure needs %d rounds, maxIterations %d", out.AuthorityDepth, maxIter)
	}
	if exceeded != "" {
		m.Probe("limit_certainly_exceeded")
		if !strings.HasPrefix(v.Class, "limit") {
			m.Violate("C11", "S5-limit-not-enforced", "limit exceeded but Authorize did not fail with a limit error (via "+v.Via+")",
				fmt.Sprintf("op %d via %s: %s, yet Authorize returned %q (%s)", rec.I, v.Via, exceeded, v.Class, v.ErrText))
		}
	}
	if exceeded != "" && v.Second != "" && !strings.HasPrefix(v.Second, "limit") && !clockMoved {
		m.Violate("C11", "S5-limit-not-enforced", "limit exceeded, yet a repeated Authorize on the same authorizer did not fail with a limit error",
			fmt.Sprintf("op %d via %s: %s; first Authorize %q, repeated Authorize %q", rec.I, v.Via, exceeded, v.Class, v.Second))
	}
	if strings.HasPrefix(v.Class, "limit") {
		switch v.Class {
		case "limit:facts":
			if size < maxFacts {
				m.Violate("C11", "S3-impossible-limit", "MaxFacts reported but every evaluation is smaller", fmt.Sprintf("largest world has %d facts, maxFacts=%d", size, maxFacts))
			}
		case "limit:iter":
			if depth+1 < maxIter {
				m.Violate("C11", "S3-impossible-limit", "MaxIterations reported but every fixpoint is reached earlier", fmt.Sprintf("deepest evaluation needs %d rounds, maxIterations=%d", depth, maxIter))
			}
		case "limit:timeout":
			if rec.Call.StallNs < maxDur && rec.Call.Idle == 0 {
				m.Violate("C11", "S3-impossible-limit", "Timeout reported but the clock did not pass the deadline", fmt.Sprintf("clock advanced %d ns during the call, maxDuration=%d", rec.Call.StallNs, maxDur))
			}
		}
	}
}

func (o VerdictOracle) AtEnd(m *VM) {
	if !o.Limits {
		return
	}
	// same token, same content, same options through every constructor => same class
	type grp struct {
		class map[string]string
		first int
	}
	groups := map[string]*grp{}
	var keys []string
	for _, rec := range m.Recs {
		if rec.K != "verify" || rec.V == nil || rec.V.Class == "" || rec.V.Az == nil || rec.Panic != "" {
			continue
		}
		if rec.Call.StallNs > 0 || rec.Call.Idle > 0 {
			continue
		}
		k := fmt.Sprintf("%d|%s|%+v", rec.V.Tok, rec.V.Az.Canon(), rec.V.Lim)
		g := groups[k]
		if g == nil {
			g = &grp{class: map[string]string{}, first: rec.I}
			groups[k] = g
			keys = append(keys, k)
		}
		g.class[rec.V.Via] = rec.V.Class
	}
	for _, k := range keys {
		g := groups[k]
		if len(g.class) < 2 {
			continue
		}
		m.Probe("constructor_agreement_checked")
		var vias []string
		for via := range g.class {
			vias = append(vias, via)
		}
		sort.Strings(vias)
		for _, via := range vias[1:] {
			if g.class[via] != g.class[vias[0]] {
				m.Violate("C11", "S5-options-not-honoured", "constructors disagree under the same options: "+vias[0]+" vs "+via,
					fmt.Sprintf("same token, content and limits: %s => %q, %s => %q", vias[0], g.class[vias[0]], via, g.class[via]))
			}
		}
	}
}

package vm

import (
	"bytes"
	"crypto/ed25519"
	"encoding/hex"
	"fmt"
	"strings"

	"bsim/ref"
)

// tokenBytes returns the bytes a token was loaded from, or its serialization.
func (m *VM) tokenBytes(t *TokObj) []byte {
	if t.FromBlob > 0 {
		if b := m.Blob(t.FromBlob); b != nil {
			return b.Data
		}
	}
	b, _ := t.B.Serialize()
	return b
}

// wellFormed: the independent decoder's judgement that the bytes follow the
// published schema: every block parses under version 3 with resolvable
// symbols and 32/64-byte keys and signatures.
func wellFormed(data []byte, base []string) bool {
	_, env, problems, err := ref.DecodeTokenBase(data, base)
	if err != nil || len(problems) > 0 {
		return false
	}
	for _, sb := range env.All() {
		if len(sb.Key) != 32 || len(sb.Signature) != 64 || sb.Alg != 0 {
			return false
		}
	}
	return true
}

// ChainOracle: C01 (and, for sealed tokens, the last sentence of C09).
type ChainOracle struct{ Prop string }

type ledger struct {
	authority map[string]bool // hex(pub) + "|" + hex(signed authority triple) produced by honest issuers
}

func (o ChainOracle) ledger(m *VM) *ledger {
	l, _ := m.Ext["ledger"].(*ledger)
	if l == nil {
		l = &ledger{authority: map[string]bool{}}
		m.Ext["ledger"] = l
	}
	return l
}

func authKey(pub []byte, sb *ref.WSignedBlock) string {
	return hex.EncodeToString(pub) + "|" + hex.EncodeToString(sb.Block) + "|" + hex.EncodeToString(sb.Key) + "|" + hex.EncodeToString(sb.Signature)
}

func (o ChainOracle) AfterStep(m *VM, rec *Rec) {
	op := &m.Plan.Ops[rec.I]
	l := o.ledger(m)
	switch rec.K {
	case "build", "bldbuild":
		// ground truth: an honest issuer signed this authority block
		if t := m.Tok(op.Out); t != nil && t.Created == rec.I {
			if k := m.Key(t.RootKey); k != nil && !k.Attacker {
				if ser, err := t.B.Serialize(); err == nil {
					if env, err := ref.DecodeBiscuit(ser); err == nil {
						l.authority[authKey(k.Pub, env.Authority)] = true
					}
				}
			}
		}
		return
	case "verify", "az":
	default:
		return
	}
	if rec.Panic != "" || rec.Skipped != "" {
		return
	}
	t := m.Tok(op.A)
	if t == nil || op.KS == nil || op.Via == "NewVerifier" {
		return
	}
	var azErr string
	if rec.K == "verify" {
		azErr = rec.V.AzErr
	} else {
		azErr = rec.Class
	}
	accepted := azErr == ""
	errText := rec.Err
	if rec.V != nil {
		errText = rec.V.AzErrText
	}
	if strings.Contains(azErr, "+authorizer") {
		m.Violate(o.Prop, "authorizer-returned-for-rejected-token", "an Authorizer value was returned together with a verification error", fmt.Sprintf("op %d: %s", rec.I, azErr))
	}
	data := m.tokenBytes(t)
	reser, _ := t.B.Serialize()
	env, derr := ref.DecodeBiscuit(data)
	var idp *uint32
	if derr == nil {
		idp = env.RootKeyID
	} else {
		idp = t.B.RootKeyID()
	}
	key := m.RefKey(op.KS, idp)
	mutated := t.Hostile
	if mutated {
		m.Probe("chain_mutated_token_reached_verification")
	}
	// third sentence of C01 for verifiers that hold a key source (map of ids + default) instead of one
	// key: a token produced only through the library, presented to a source that selects its issuer's
	// key for the root key id ITS BUILDER WAS GIVEN (not the one found on the wire), is accepted
	if ik := m.Key(t.RootKey); !accepted && !t.Hostile && t.Abs != nil && op.KS.UseMap && op.KS.Raw == "" && ik != nil && !ik.Rotated {
		if want := m.RefKey(op.KS, t.Abs.RootID); want != nil && bytes.Equal(want, ik.Pub) {
			m.Violate(o.Prop, "library-built-token-rejected", "a token produced only through the library is rejected by a key source holding its issuer's key: "+azErr,
				fmt.Sprintf("op %d: token in slot %d (created by op %d, %d blocks, root key id given to the builder: %s) rejected: %s", rec.I, op.A, t.Created, len(t.Abs.Blocks), idStr(t.Abs.RootID), errText))
			return
		}
	}
	if key == nil || len(key) != 32 {
		if accepted && op.KS.Raw == "" {
			// whatever the bytes are: with no key to verify them under, nothing can have been verified
			m.Violate(o.Prop, "forgery-accepted", "token accepted although the verifier holds no key that applies to it",
				fmt.Sprintf("op %d: no key is registered for the token's root key id (%s) and there is no usable default, yet the token was accepted\nmutations: %v\nbytes: %x", rec.I, idStr(idp), m.mutsOf(t), clipB(data)))
		}
		return // key selection is C16's subject
	}
	refValid := derr == nil && ref.VerifyChain(env, key) == nil
	// the library verifies what it parsed; re-serialize that and judge it too, so that a
	// protobuf decoding subtlety cannot be mistaken for a broken chain
	env2, derr2 := ref.DecodeBiscuit(reser)
	refValid2 := derr2 == nil && ref.VerifyChain(env2, key) == nil
	if accepted {
		m.Probe("chain_accepted")
		if derr != nil && refValid2 {
			m.Probe("chain_decoder_parity_case")
		}
		if (derr == nil && !refValid) || !refValid2 {
			why := "?"
			if derr == nil {
				if e := ref.VerifyChain(env, key); e != nil {
					why = e.Error()
				}
			} else if derr2 == nil {
				if e := ref.VerifyChain(env2, key); e != nil {
					why = e.Error()
				}
			}
			m.Violate(o.Prop, "forgery-accepted", "token accepted although the reference chain walk rejects it: "+firstWord(why),
				fmt.Sprintf("op %d: library accepted the token under key %x, reference: %s\nmutations: %v\nbytes: %x", rec.I, key, why, m.mutsOf(t), clipB(data)))
			return
		}
		// ledger cross-check: only the issuer can have signed the authority block
		if derr2 == nil {
			issuerKnown := false
			for _, s := range m.Slots {
				if k, ok := s.(*KeyObj); ok && !k.Attacker && bytes.Equal(k.Pub, key) {
					issuerKnown = true
				}
			}
			if issuerKnown && !l.authority[authKey(key, env2.Authority)] {
				m.Violate(o.Prop, "forgery-accepted", "accepted authority block was never signed by the issuer (key ledger)",
					fmt.Sprintf("op %d: the accepted token's authority block/next key/signature triple does not occur in any token the issuer built\nmutations: %v", rec.I, m.mutsOf(t)))
			}
		}
		if mutated {
			m.Probe("chain_mutation_legitimately_valid")
		}
		return
	}
	m.Probe("chain_rejected")
	// third sentence of C01: whatever was produced by building, attenuating, sealing (and
	// serializing / reloading) through the library is accepted under its issuer's key
	if k := m.Key(op.KS.Key); !t.Hostile && t.Abs != nil && !op.KS.UseMap && op.KS.Raw == "" && op.KS.Key == t.RootKey && k != nil && !k.Rotated {
		m.Violate(o.Prop, "library-built-token-rejected", "a token produced only through the library is rejected under its issuer's key: "+azErr,
			fmt.Sprintf("op %d: token in slot %d (created by op %d, %d blocks) rejected: %s", rec.I, op.A, t.Created, len(t.Abs.Blocks), errText))
		return
	}
	// completeness
	if refValid && refValid2 && wellFormed(data, t.Base) {
		m.Violate(o.Prop, "valid-token-rejected", "well-formed token with an unbroken chain rejected: "+azErr,
			fmt.Sprintf("op %d: reference accepts the chain under key %x but the library rejected it (%s)\nmutations: %v", rec.I, key, errText, m.mutsOf(t)))
	}
}

func (o ChainOracle) AtEnd(m *VM) {}

func idStr(id *uint32) string {
	if id == nil {
		return "none"
	}
	return fmt.Sprint(*id)
}

func firstWord(s string) string {
	if i := strings.Index(s, ":"); i > 0 && i+1 < len(s) {
		rest := strings.TrimSpace(s[i+1:])
		// drop block numbers
		out := []rune{}
		for _, r := range rest {
			if r >= '0' && r <= '9' {
				continue
			}
			out = append(out, r)
		}
		return string(out)
	}
	return s
}

func clipB(b []byte) []byte {
	if len(b) > 400 {
		return b[:400]
	}
	return b
}

func (m *VM) mutsOf(t *TokObj) []string {
	if t.FromBlob > 0 {
		if b := m.Blob(t.FromBlob); b != nil {
			return b.Muts
		}
	}
	return nil
}

// UnmarshalOracle: honest bytes must load; part of C01's third sentence and C07.
type UnmarshalOracle struct{ Prop string }

func (o UnmarshalOracle) AfterStep(m *VM, rec *Rec) {
	if rec.K != "unm" || rec.Panic != "" {
		return
	}
	op := &m.Plan.Ops[rec.I]
	bl := m.Blob(op.A)
	if bl == nil {
		return
	}
	if !bl.Mutated && !bl.Hostile && rec.Err != "" {
		m.Violate(o.Prop, "honest-token-does-not-load", "bytes produced by the library do not unmarshal", fmt.Sprintf("op %d: %s", rec.I, rec.Err))
	}
}
func (o UnmarshalOracle) AtEnd(m *VM) {}

// ---- C07 wire fidelity

type WireOracle struct{}

func (WireOracle) AfterStep(m *VM, rec *Rec) {
	if rec.Panic != "" {
		return
	}
	op := &m.Plan.Ops[rec.I]
	switch rec.K {
	case "ser":
		t := m.Tok(op.A)
		if t == nil || t.Hostile || t.Abs == nil || rec.Err != "" {
			return
		}
		m.Probe("wire_honest_message_decoded")
		if p := ContentProblem(t); p != "" {
			m.Violate("C07", "bytes-differ-from-callers-input", "independent decoding of the serialized token differs from what the callers supplied", fmt.Sprintf("op %d: %s", rec.I, p))
		}
		for _, b := range t.Abs.Blocks {
			probeContent(m, b)
		}
	case "unm":
		bl := m.Blob(op.A)
		if bl == nil {
			return
		}
		if len(bl.Muts) == 1 && strings.HasPrefix(bl.Muts[0], "version") && !strings.HasSuffix(bl.Muts[0], ":3") {
			m.Probe("wire_unsupported_version_presented")
			if rec.Err == "" {
				m.Violate("C07", "unsupported-version-accepted", "a block declaring an unsupported schema version was loaded", fmt.Sprintf("op %d: mutation %s, Unmarshal returned a token", rec.I, bl.Muts[0]))
			}
			return
		}
		if bl.Mutated || bl.Hostile {
			return
		}
		nt := m.Tok(op.Out)
		if nt == nil || nt.Created != rec.I {
			return
		}
		m.Probe("wire_roundtrip_checked")
		again, err := nt.B.Serialize()
		if err != nil || !bytes.Equal(again, bl.Data) {
			m.Violate("C07", "reserialization-differs", "Unmarshal followed by Serialize does not reproduce the bytes", fmt.Sprintf("op %d: err=%v\n in: %x\nout: %x", rec.I, err, clipB(bl.Data), clipB(again)))
		}
		if orig := m.Tok(bl.FromTok); orig != nil {
			// what the property names: content (printed Datalog of the blocks), revocation
			// identifiers, root key id, block count, context. The full String() also prints
			// each block's private symbol table, which a reloaded token need not lay out the same way.
			if a, b := LooseFingerprint(orig.B), LooseFingerprint(nt.B); a != b {
				m.Violate("C07", "reloaded-token-differs", "reloaded token prints / identifies differently from the original", fmt.Sprintf("op %d: %s", rec.I, firstDiff(a, b)))
			}
		}
		if p := ContentProblem(nt); p != "" {
			m.Violate("C07", "reloaded-content-differs", "reloaded token does not carry what the callers supplied", fmt.Sprintf("op %d: %s", rec.I, p))
		}
	}
}

func (WireOracle) AtEnd(m *VM) {
	// reloaded tokens behave like the originals: same verdict for the same request
	type key struct {
		orig int
		az   string
	}
	seen := map[string]string{}
	for _, rec := range m.Recs {
		if rec.K != "verify" || rec.V == nil || rec.V.Az == nil || rec.Panic != "" {
			continue
		}
		t := m.Tok(rec.V.Tok)
		if t == nil || t.Hostile {
			continue
		}
		origin := rec.V.Tok
		if t.FromBlob > 0 {
			if b := m.Blob(t.FromBlob); b != nil && b.FromTok > 0 && !b.Mutated {
				origin = b.FromTok
			}
		}
		if rec.Call.StallNs > 0 || rec.Call.Idle > 0 || strings.HasPrefix(rec.V.Class, "limit") {
			continue // a stalled clock may legitimately turn one of the two evaluations into a timeout
		}
		k := fmt.Sprintf("%d|%s|%+v|%+v", origin, rec.V.Az.Canon(), m.Plan.Ops[rec.I].KS, rec.V.Lim)
		cls := rec.V.AzErr + "/" + rec.V.Class
		if prev, ok := seen[k]; ok {
			m.Probe("wire_behaviour_compared")
			if prev != cls {
				m.Violate("C07", "reloaded-behaviour-differs", "original and reloaded token give different authorization outcomes", fmt.Sprintf("%q vs %q for the same request", prev, cls))
			}
		} else {
			seen[k] = cls
		}
	}
}

func probeContent(m *VM, b ref.Block) {
	var walkT func(t ref.Term)
	walkT = func(t ref.Term) {
		m.Probe("wire_term_" + t.K)
		for _, e := range t.Set {
			walkT(e)
		}
	}
	var walkE func(e ref.Expr)
	walkE = func(e ref.Expr) {
		if e.Op == "" {
			if e.T != nil {
				walkT(*e.T)
			}
			return
		}
		m.Probe("wire_op_" + e.Op)
		for _, a := range e.Args {
			walkE(a)
		}
	}
	walkR := func(r ref.Rule) {
		for _, p := range append([]ref.Pred{r.Head}, r.Body...) {
			for _, t := range p.Terms {
				walkT(t)
			}
		}
		for _, e := range r.Exprs {
			walkE(e)
		}
	}
	for _, f := range b.Facts {
		for _, t := range f.Terms {
			walkT(t)
		}
	}
	for _, r := range b.Rules {
		walkR(r)
	}
	for _, c := range b.Checks {
		for _, q := range c.Queries {
			walkR(q)
		}
	}
	if b.Context != "" {
		m.Probe("wire_context")
	}
}

// ---- C16 root key id

type RootIDOracle struct{}

func (RootIDOracle) AfterStep(m *VM, rec *Rec) {
	if rec.Panic != "" {
		return
	}
	op := &m.Plan.Ops[rec.I]
	// ledger: every honest descendant reports the id given at creation
	if t := m.Tok(op.Out); t != nil && t.Created == rec.I && t.Abs != nil && !t.Hostile {
		got, want := t.B.RootKeyID(), t.Abs.RootID
		if want != nil {
			m.Probe("rootid_token_with_id")
		}
		if (got == nil) != (want == nil) || (got != nil && *got != *want) {
			m.Violate("C16", "root-key-id-lost", "root key id not reported by a token derived through "+rec.K,
				fmt.Sprintf("op %d (%s): token reports root key id %s, the id given at creation is %s", rec.I, rec.K, rootIDStr(got), rootIDStr(want)))
		}
	}
	if (rec.K != "verify" && rec.K != "az") || op.KS == nil || !op.KS.UseMap {
		return
	}
	t := m.Tok(op.A)
	if t == nil {
		return
	}
	var azErr string
	if rec.K == "verify" {
		azErr = rec.V.AzErr
	} else {
		azErr = rec.Class
	}
	data := m.tokenBytes(t)
	env, err := ref.DecodeBiscuit(data)
	if err != nil {
		return
	}
	key := m.RefKey(op.KS, env.RootKeyID)
	m.Probe("rootid_selection_checked")
	if key == nil {
		m.Probe("rootid_no_key_for_id")
		if !strings.HasPrefix(azErr, "nokey") {
			m.Violate("C16", "missing-key-not-reported", "no key is registered for the token's id, yet the result is not 'no public key available'",
				fmt.Sprintf("op %d: token id %s, key map %+v default %d => result %q", rec.I, rootIDStr(env.RootKeyID), op.KS.Map, op.KS.Def, azErr))
		}
		return
	}
	valid := ref.VerifyChain(env, key) == nil
	if valid != (azErr == "") && (valid || azErr == "") {
		// accepted although the selected key does not verify (fell back to another key), or rejected although it does
		if azErr == "" {
			m.Violate("C16", "wrong-key-used", "token accepted although the key registered under its id does not verify it",
				fmt.Sprintf("op %d: token id %s; key map %+v default %d", rec.I, rootIDStr(env.RootKeyID), op.KS.Map, op.KS.Def))
		} else if wellFormed(data, t.Base) {
			m.Violate("C16", "right-key-not-used", "token rejected although the key registered under its id verifies it",
				fmt.Sprintf("op %d: token id %s; key map %+v default %d; result %q (%s)", rec.I, rootIDStr(env.RootKeyID), op.KS.Map, op.KS.Def, azErr, rec.V.AzErrText))
		}
	}
}
func (RootIDOracle) AtEnd(m *VM) {}

// ---- C17 revocation identifiers

type RevocationOracle struct{}

func (o RevocationOracle) AfterStep(m *VM, rec *Rec) {
	if rec.Panic != "" {
		return
	}
	op := &m.Plan.Ops[rec.I]
	t := m.Tok(op.Out)
	if t == nil || t.Created != rec.I || t.Hostile {
		return
	}
	o.checkToken(m, rec, t)
}

// AtEnd re-examines every live token: identifiers are stable, so everything
// that held when a token was created must still hold after all later operations.
func (o RevocationOracle) AtEnd(m *VM) {
	for _, slot := range m.Toks() {
		t := m.Tok(slot)
		if t.Hostile || t.Created >= len(m.Recs) {
			continue
		}
		o.checkToken(m, m.Recs[t.Created], t)
	}
}

func (RevocationOracle) checkToken(m *VM, rec *Rec, t *TokObj) {
	ids := t.B.RevocationIds()
	m.Probe("revocation_token_checked")
	want := 1 + t.B.BlockCount()
	if t.Abs != nil && !t.Hostile {
		want = len(t.Abs.Blocks) // the blocks its callers signed, not what the library says it holds
	}
	if len(ids) != want {
		m.Violate("C17", "id-count", "number of revocation ids differs from the number of blocks", fmt.Sprintf("op %d: %d ids, %d blocks", rec.I, len(ids), want))
		return
	}
	// prefix stability
	parent := m.Tok(t.Parent)
	if t.FromBlob > 0 {
		if b := m.Blob(t.FromBlob); b != nil && !b.Mutated {
			parent = m.Tok(b.FromTok)
		}
	}
	if parent != nil && !parent.Hostile {
		pids := parent.B.RevocationIds()
		m.Probe("revocation_prefix_checked")
		if len(pids) > len(ids) {
			m.Violate("C17", "prefix", "derived token has fewer ids than its parent", fmt.Sprintf("op %d", rec.I))
		} else {
			for i := range pids {
				if !bytes.Equal(pids[i], ids[i]) {
					m.Violate("C17", "prefix", "derived token changed an id of its parent", fmt.Sprintf("op %d (%s): id %d %x -> %x", rec.I, rec.K, i, pids[i], ids[i]))
					break
				}
			}
		}
	}
	// id i == signature of block i as read by the independent decoder
	ser, err := t.B.Serialize()
	if err == nil {
		if _, derr := ref.DecodeBiscuit(ser); derr != nil {
			m.Violate("C17", "id-is-not-signature", "the independent decoder cannot read what an honest token serializes to, so no block signature matches its ids", fmt.Sprintf("op %d (%s): %v", rec.I, rec.K, derr))
		}
		if env, err := ref.DecodeBiscuit(ser); err == nil {
			for i, sb := range env.All() {
				if i < len(ids) && !bytes.Equal(sb.Signature, ids[i]) {
					m.Violate("C17", "id-is-not-signature", "revocation id differs from the block signature found by the independent decoder", fmt.Sprintf("op %d: block %d", rec.I, i))
				}
			}
		}
	}
	// global uniqueness per signing event
	reg, _ := m.Ext["revids"].(map[string]int)
	if reg == nil {
		reg = map[string]int{}
		m.Ext["revids"] = reg
	}
	for i, id := range ids {
		if i >= len(t.SignEvents) {
			break
		}
		k := hex.EncodeToString(id)
		ev := t.SignEvents[i]
		if prev, ok := reg[k]; ok && prev != ev && !m.Plan.Replayed {
			m.Violate("C17", "id-not-unique", "two blocks signed at different times share a revocation id", fmt.Sprintf("signing events op %d and op %d both produced id %q", prev, ev, clipS(k)))
		}
		reg[k] = ev
	}
}

// ---- C09 sealing

type SealOracle struct{}

func (SealOracle) AfterStep(m *VM, rec *Rec) {
	if rec.Panic != "" {
		return
	}
	op := &m.Plan.Ops[rec.I]
	switch rec.K {
	case "seal", "append", "attenuate":
		t := m.Tok(op.A)
		if t == nil || t.Hostile || !t.Sealed {
			if rec.K == "seal" && t != nil && !t.Hostile && rec.Err == "" {
				// sealing keeps the revocation ids
				nt := m.Tok(op.Out)
				if nt != nil && nt.Created == rec.I {
					a, b := t.B.RevocationIds(), nt.B.RevocationIds()
					same := len(a) == len(b)
					for i := 0; same && i < len(a); i++ {
						same = bytes.Equal(a[i], b[i])
					}
					m.Probe("seal_revocation_ids_compared")
					if !same {
						m.Violate("C09", "seal-changes-revocation-ids", "sealed token has different revocation identifiers", fmt.Sprintf("op %d", rec.I))
					}
					// what the sealed token puts on the wire must be the sealed envelope: no next secret
					if ser, err := nt.B.Serialize(); err == nil {
						if env, err := ref.DecodeBiscuit(ser); err == nil && (env.NextSecret != nil || env.FinalSignature == nil) {
							m.Violate("C09", "sealed-token-serializes-unsealed", "the bytes of a sealed token still carry a next secret / no seal signature",
								fmt.Sprintf("op %d: sealing token in slot %d (reloaded=%v) gave a token whose serialization is not sealed", rec.I, op.A, t.FromBlob > 0))
						}
					}
				}
			}
			return
		}
		via := "fresh"
		if t.FromBlob > 0 {
			via = "reloaded"
		}
		m.Probe("sealed_" + rec.K + "_attempt_" + via)
		if rec.Err == "" || (m.Tok(op.Out) != nil && m.Tok(op.Out).Created == rec.I) {
			m.Violate("C09", "sealed-token-extended", rec.K+" on a sealed ("+via+") token did not fail", fmt.Sprintf("op %d: err=%q", rec.I, rec.Err))
		}
	}
}

// unsealedOrigin follows seal / reload edges back to the token a sealed token was sealed from.
func (m *VM) unsealedOrigin(slot int) (int, bool) {
	sealedSeen := false
	for depth := 0; depth < 20; depth++ {
		t := m.Tok(slot)
		if t == nil || t.Hostile {
			return 0, false
		}
		if t.FromBlob > 0 {
			b := m.Blob(t.FromBlob)
			if b == nil || b.Mutated || b.FromTok == 0 {
				return 0, false
			}
			slot = b.FromTok
			continue
		}
		if t.Sealed {
			sealedSeen = true
			slot = t.Parent
			continue
		}
		return slot, sealedSeen
	}
	return 0, false
}

func (SealOracle) AtEnd(m *VM) {
	// twin agreement: sealed token (fresh or reloaded) vs the token it was sealed from
	type out struct{ cls string; rec int }
	base := map[string]out{}
	var sealedRecs []*Rec
	for _, rec := range m.Recs {
		if rec.K != "verify" || rec.V == nil || rec.V.Az == nil || rec.Panic != "" || rec.Skipped != "" {
			continue
		}
		t := m.Tok(rec.V.Tok)
		if t == nil || t.Hostile {
			continue
		}
		if t.Sealed {
			sealedRecs = append(sealedRecs, rec)
			continue
		}
		origin := rec.V.Tok
		if o, _ := m.unsealedOrigin(rec.V.Tok); o > 0 {
			origin = o
		}
		base[fmt.Sprintf("%d|%s|%+v|%+v", origin, rec.V.Az.Canon(), m.Plan.Ops[rec.I].KS, rec.V.Lim)] = out{rec.V.AzErr + "/" + rec.V.Class + "/" + idsStr(rec.V.Failed), rec.I}
	}
	for _, rec := range sealedRecs {
		o, ok := m.unsealedOrigin(rec.V.Tok)
		if !ok {
			continue
		}
		k := fmt.Sprintf("%d|%s|%+v|%+v", o, rec.V.Az.Canon(), m.Plan.Ops[rec.I].KS, rec.V.Lim)
		if b, ok := base[k]; ok {
			m.Probe("seal_twin_compared")
			cls := rec.V.AzErr + "/" + rec.V.Class + "/" + idsStr(rec.V.Failed)
			if cls != b.cls {
				m.Violate("C09", "sealed-twin-disagrees", "sealed token and the token it was sealed from give different outcomes", fmt.Sprintf("unsealed (op %d): %q, sealed (op %d): %q", b.rec, b.cls, rec.I, cls))
			}
		}
	}
}

var _ = ed25519.PublicKeySize

package vm

import (
	"crypto/ed25519"
	"encoding/hex"
	"errors"
	"fmt"
	"io"
	"regexp"
	"sort"
	"strings"
	"time"

	biscuit "github.com/biscuit-auth/biscuit-go/v2"
	"github.com/biscuit-auth/biscuit-go/v2/datalog"

	"bsim/lower"
	"bsim/ref"
	"bsim/sched"
)

// ---- simulated entropy

var ErrSimEntropy = errors.New("bsim: simulated entropy source failure")

type SimRand struct {
	stream    []byte
	script    []ReadStep
	Delivered []byte
	OpStart   int
	Calls     int
	Failed    bool
	dead      error
}

func NewSimRand(e *Entropy) *SimRand {
	b, _ := hex.DecodeString(e.Bytes)
	return &SimRand{stream: b, script: append([]ReadStep(nil), e.Script...)}
}

// Begin marks the start of an operation that is handed this source: the bytes
// the operation is given are Delivered[OpStart:].
func (r *SimRand) Begin() { r.OpStart = len(r.Delivered) }

func (r *SimRand) Read(p []byte) (int, error) {
	r.Calls++
	if r.dead != nil { // a source that has failed stays failed
		return 0, r.dead
	}
	n, err := r.read(p)
	if err != nil {
		r.dead = err
	}
	return n, err
}

// tempErr is a failure that describes itself as temporary, as errors of network-backed sources do.
type tempErr struct{}

func (tempErr) Error() string   { return "bsim: simulated entropy source temporarily unavailable" }
func (tempErr) Temporary() bool { return true }
func (tempErr) Timeout() bool   { return true }

func (r *SimRand) read(p []byte) (int, error) {
	st := ReadStep{Kind: "all"}
	if len(r.script) > 0 {
		st = r.script[0]
		r.script = r.script[1:]
	}
	switch st.Kind {
	case "zero":
		return 0, nil
	case "err":
		r.Failed = true
		return 0, ErrSimEntropy
	case "eof":
		r.Failed = true
		return 0, io.EOF
	case "ueof":
		r.Failed = true
		return 0, io.ErrUnexpectedEOF
	case "terr": // an error that calls itself temporary (and stays): a source behind a network
		r.Failed = true
		r.script = append([]ReadStep{{Kind: "terr"}}, r.script...)
		return 0, tempErr{}
	case "terr1": // ... or that goes away after one failure (what came before it is not handed out again)
		r.Failed = true
		return 0, tempErr{}
	}
	n := len(p)
	if st.Kind == "short" && st.N < n {
		n = st.N
	}
	if n > len(r.stream) {
		n = len(r.stream)
	}
	if n == 0 && len(p) > 0 {
		r.Failed = true
		return 0, io.EOF
	}
	copy(p, r.stream[:n])
	r.Delivered = append(r.Delivered, r.stream[:n]...)
	r.stream = r.stream[n:]
	return n, nil
}

// ---- objects

type KeyObj struct {
	Pub      ed25519.PublicKey
	Priv     ed25519.PrivateKey
	Attacker bool
	Rotated  bool // Pub no longer belongs to Priv
}

type TokObj struct {
	B        *biscuit.Biscuit
	Abs      *ref.Token // what an honest lineage put in; nil for tokens from mutated / Byzantine bytes
	Parent   int
	RootKey  int // key slot of the issuer (0 unknown)
	FromBlob int
	Created  int
	FP       string
	Hostile  bool
	Sealed   bool
	SignEvents []int // op index of the signing event of each block
	Base     []string // base symbol table issuer and readers agreed on (nil = the default one)
}

type BlobObj struct {
	Base    []string
	Data    []byte
	Abs     *ref.Token
	RootKey int
	FromTok int
	Mutated bool
	Muts    []string
	Hostile bool
	SignEvents []int
}

type BBObj struct {
	BB      biscuit.BlockBuilder
	Parent  int
	Content ref.Block
	Builds  int
}

type BlkObj struct {
	Blk     *biscuit.Block
	Content ref.Block
	Parent  int
}

type BldObj struct {
	Bld     biscuit.Builder
	Key     int
	RootID  *uint32
	Content ref.Block
	Rand    *SimRand
	Builds  int
	Default bool // built without WithRNG: reads the process-wide default source
	Base    []string // base symbol table agreed with the readers (WithSymbols)
}

type AzObj struct {
	Az        biscuit.Authorizer
	Tok       int
	Lim       *Lim
	Content   ref.Authz // content of the current round
	Evaluated bool
	Rounds    int
	Unknown   bool // content loaded from bytes that are not a known snapshot
	Scratch   func() biscuit.Authorizer // another authorizer for the same token and keys (nil if none)
}

// ---- records

type QueryRec struct {
	Facts []string
	Err   string
}

type VerifyRec struct {
	Tok       int
	AzErr     string // "" ok; "nokey", "sig", "other:<text>"
	AzErrText string
	Class     string // verdict class; "" if no authorizer was obtained
	ErrText   string
	Failed    []ref.CheckID
	Queries   []QueryRec
	World     []string
	Second    string
	SimStart  int64
	SimEnd    int64
	Az        *ref.Authz
	Lim       *Lim
	Via       string
}

type Rec struct {
	I       int
	K       string
	Skipped string
	Err     string
	Class   string
	Panic   string
	Call    sched.CallResult
	V       *VerifyRec
	Out     int
	Strs    map[string]string
	Ints    map[string]int
}

func (r *Rec) setS(k, v string) {
	if r.Strs == nil {
		r.Strs = map[string]string{}
	}
	r.Strs[k] = v
}
func (r *Rec) setI(k string, v int) {
	if r.Ints == nil {
		r.Ints = map[string]int{}
	}
	r.Ints[k] = v
}

// ---- VM

type Oracle interface {
	AfterStep(m *VM, rec *Rec)
	AtEnd(m *VM)
}

type VM struct {
	Plan    *Plan
	Sim     *sched.Sim
	Slots   []interface{}
	Recs    []*Rec
	Res     *Result
	Oracles []Oracle
	Disk    *Disk
	cur     int
	CurRand *SimRand               // entropy source handed to the library by the current op
	Ext     map[string]interface{} // oracle-private state
	loadBuf []byte                 // the verifier's buffer for policy files read from storage, re-used for every file
}

// loadPolicies hands LoadPolicies the policy file in the verifier's own read buffer: one buffer for
// every file of the run (the next file is read into the same bytes), and the caller writes over it
// as soon as the call has returned.
func (m *VM) loadPolicies(a biscuit.Authorizer, data []byte) error {
	if len(data) > len(m.loadBuf) {
		m.loadBuf = make([]byte, 4096+2*len(data))
	}
	buf := m.loadBuf[:len(data):len(data)]
	copy(buf, data)
	err := a.LoadPolicies(buf)
	for i := range buf {
		buf[i] = 0x5a
	}
	m.Probe("policy_file_read_buffer_reused")
	return err
}

func (m *VM) Probe(name string) { m.Res.Probes[name]++ }
func (m *VM) FaultFired(kind string) { m.Res.Faults[kind]++ }

func (m *VM) Violate(prop, inv, sig, detail string) {
	if len(detail) > 1500 {
		detail = detail[:1500] + "…"
	}
	m.Res.Violations = append(m.Res.Violations, Violation{Prop: prop, Invariant: inv, Detail: detail, Step: m.cur, Sig: sig})
}

func (m *VM) slot(i int) interface{} {
	if i <= 0 || i >= len(m.Slots) {
		return nil
	}
	return m.Slots[i]
}

func (m *VM) Tok(i int) *TokObj   { t, _ := m.slot(i).(*TokObj); return t }
func (m *VM) Key(i int) *KeyObj   { t, _ := m.slot(i).(*KeyObj); return t }
func (m *VM) Blob(i int) *BlobObj { t, _ := m.slot(i).(*BlobObj); return t }
func (m *VM) BB(i int) *BBObj     { t, _ := m.slot(i).(*BBObj); return t }
func (m *VM) Blk(i int) *BlkObj   { t, _ := m.slot(i).(*BlkObj); return t }
func (m *VM) Bld(i int) *BldObj   { t, _ := m.slot(i).(*BldObj); return t }
func (m *VM) AzO(i int) *AzObj    { t, _ := m.slot(i).(*AzObj); return t }

func (m *VM) put(i int, v interface{}) {
	if i <= 0 {
		return
	}
	for len(m.Slots) <= i {
		m.Slots = append(m.Slots, nil)
	}
	m.Slots[i] = v
}

// Toks returns the slots holding tokens, in slot order.
func (m *VM) Toks() []int {
	var out []int
	for i, s := range m.Slots {
		if _, ok := s.(*TokObj); ok {
			out = append(out, i)
		}
	}
	return out
}

// ---- classification

var reBlockCheck = regexp.MustCompile(`failed to verify (?:block #?(\d+) )?check #(\d+)`)

// ClassifyAuthz classifies the result of Authorize with errors.Is and nil-ness only.
func ClassifyAuthz(err error) string {
	switch {
	case err == nil:
		return "allow"
	case errors.Is(err, biscuit.ErrPolicyDenied):
		return "deny"
	case errors.Is(err, biscuit.ErrNoMatchingPolicy):
		return "nomatch"
	case errors.Is(err, datalog.ErrWorldRunLimitMaxFacts):
		return "limit:facts"
	case errors.Is(err, datalog.ErrWorldRunLimitMaxIterations):
		return "limit:iter"
	case errors.Is(err, datalog.ErrWorldRunLimitTimeout):
		return "limit:timeout"
	}
	return "fail"
}

func failedChecks(err error) []ref.CheckID {
	if err == nil {
		return nil
	}
	var out []ref.CheckID
	for _, mm := range reBlockCheck.FindAllStringSubmatch(err.Error(), -1) {
		blk := -1
		if mm[1] != "" {
			fmt.Sscan(mm[1], &blk)
		}
		idx := 0
		fmt.Sscan(mm[2], &idx)
		out = append(out, ref.CheckID{Block: blk, Index: idx})
	}
	return out
}

func (m *VM) worldOpts(l *Lim) []datalog.WorldOption {
	var o []datalog.WorldOption
	if l == nil {
		return nil
	}
	if l.MaxFacts > 0 {
		o = append(o, datalog.WithMaxFacts(l.MaxFacts))
	}
	if l.MaxIter > 0 {
		o = append(o, datalog.WithMaxIterations(l.MaxIter))
	}
	if l.MaxDurNs > 0 {
		o = append(o, datalog.WithMaxDuration(time.Duration(l.MaxDurNs)))
	}
	return o
}

func (m *VM) keySource(ks *KeySel) (biscuit.PublickKeyByIDProjection, ed25519.PublicKey, bool) {
	if ks == nil {
		return nil, nil, false
	}
	if ks.Raw != "" {
		b, _ := hex.DecodeString(ks.Raw)
		return biscuit.WithSingularRootPublicKey(ed25519.PublicKey(b)), ed25519.PublicKey(b), true
	}
	if ks.UseMap {
		mp := map[uint32]ed25519.PublicKey{}
		for _, e := range ks.Map {
			k := m.Key(e.Key)
			if k == nil {
				return nil, nil, false
			}
			mp[e.ID] = k.Pub
		}
		var def *ed25519.PublicKey
		if ks.Def > 0 {
			k := m.Key(ks.Def)
			if k == nil {
				return nil, nil, false
			}
			p := k.Pub
			def = &p
		}
		if ks.DefEmpty {
			var e ed25519.PublicKey
			if ks.Def%2 == 0 {
				e = ed25519.PublicKey{}
			}
			def = &e // configured, but nil or empty
		}
		for _, id := range ks.Empty {
			if _, ok := mp[id]; !ok {
				mp[id] = nil
			}
		}
		return biscuit.WithRootPublicKeys(mp, def), nil, true
	}
	k := m.Key(ks.Key)
	if k == nil {
		return nil, nil, false
	}
	return biscuit.WithSingularRootPublicKey(k.Pub), k.Pub, true
}

// RefKey returns the key the specification selects for a token with the given
// root key id, or nil when there is none.
func (m *VM) RefKey(ks *KeySel, id *uint32) ed25519.PublicKey {
	if ks.Raw != "" {
		b, _ := hex.DecodeString(ks.Raw)
		return b
	}
	if !ks.UseMap {
		if k := m.Key(ks.Key); k != nil {
			return k.Pub
		}
		return nil
	}
	if id == nil {
		if ks.DefEmpty {
			return nil
		}
		if ks.Def > 0 {
			return m.Key(ks.Def).Pub
		}
		return nil
	}
	for _, e := range ks.Map {
		if e.ID == *id {
			return m.Key(e.Key).Pub
		}
	}
	return nil
}

// scratchAuthorizer returns an authorizer in which a policy file can be prepared: preferably one
// for ANOTHER honest token of the run that verifies under the same keys (a snapshot may be loaded
// into an authorizer for any token), else one for t itself, else nil.
func (m *VM) scratchAuthorizer(t *TokObj, ks *KeySel, lim *Lim, via string) biscuit.Authorizer {
	for _, s := range m.Slots {
		if o, ok := s.(*TokObj); ok && o != t && !o.Hostile && o.B != nil {
			if a, err, ok := m.newAuthorizer(o, ks, lim, via); ok && err == nil && a != nil {
				m.Probe("policy_file_prepared_with_another_token")
				return a
			}
		}
	}
	if a, err, ok := m.newAuthorizer(t, ks, lim, via); ok && err == nil && a != nil {
		return a
	}
	return nil
}

// addViaLoad: the content reaches authorizer a as a stored policy file. A scratch authorizer for the
// same token is given the content and serializes it (SerializePolicies); a loads the bytes
// (LoadPolicies). Returns false when nothing was loaded and the caller should add the content directly.
func (m *VM) addViaLoad(scratch, a biscuit.Authorizer, c *ref.Authz, perm []int, permChecks bool) bool {
	addAuthz(scratch, c, perm, permChecks)
	data, err := scratch.SerializePolicies()
	if err != nil {
		m.Probe("via_load_serialize_failed")
		return false
	}
	if err := m.loadPolicies(a, data); err != nil {
		m.Violate("C18", "fresh-snapshot-does-not-load", "LoadPolicies rejects what SerializePolicies just produced", err.Error())
		return true
	}
	m.Probe("content_via_load_policies")
	return true
}

func addAuthz(a biscuit.Authorizer, c *ref.Authz, perm []int, permChecks bool) {
	if c == nil {
		return
	}
	// perm (if given) is an interleaving order over facts, rules, checks (policies keep their order)
	type item struct {
		kind int
		idx  int
	}
	if len(perm) == 0 && (len(c.Facts)+2*len(c.Rules)+len(c.Checks))%3 == 0 {
		// the same content through the bulk entry points (AddAuthorizer / AddBlock), which take the
		// parser's result types; the choice is a function of the content, hence of the plan
		pb := biscuit.ParsedBlock{}
		for _, f := range c.Facts {
			pb.Facts = append(pb.Facts, lower.Fact(f))
		}
		for _, r := range c.Rules {
			pb.Rules = append(pb.Rules, lower.Rule(r))
		}
		for _, k := range c.Checks {
			pb.Checks = append(pb.Checks, lower.Check(k))
		}
		if len(c.Policies)%2 == 0 {
			pa := biscuit.ParsedAuthorizer{Block: pb}
			for _, p := range c.Policies {
				pa.Policies = append(pa.Policies, lower.Policy(p))
			}
			a.AddAuthorizer(pa)
			return
		}
		a.AddBlock(pb)
		for _, p := range c.Policies {
			a.AddPolicy(lower.Policy(p))
		}
		return
	}
	var items []item
	for i := range c.Facts {
		items = append(items, item{0, i})
	}
	for i := range c.Rules {
		items = append(items, item{1, i})
	}
	for i := range c.Checks {
		items = append(items, item{2, i})
	}
	if len(perm) == len(items) {
		ok := true
		seen := make([]bool, len(items))
		for _, p := range perm {
			if p < 0 || p >= len(items) || seen[p] {
				ok = false
				break
			}
			seen[p] = true
		}
		if ok {
			n := make([]item, len(items))
			for i, p := range perm {
				n[i] = items[p]
			}
			items = n
			if !permChecks {
				// checks keep their relative order (check indexes identify checks in results)
				next := 0
				for i := range items {
					if items[i].kind == 2 {
						items[i].idx = next
						next++
					}
				}
			}
		}
	}
	for _, it := range items {
		switch it.kind {
		case 0:
			a.AddFact(lower.Fact(c.Facts[it.idx]))
		case 1:
			a.AddRule(lower.Rule(c.Rules[it.idx]))
		case 2:
			a.AddCheck(lower.Check(c.Checks[it.idx]))
		}
	}
	for _, p := range c.Policies {
		a.AddPolicy(lower.Policy(p))
	}
}

var reFactLine = regexp.MustCompile(`facts: \[(.*)\]\n`)

func worldFacts(s string) []string {
	mm := reFactLine.FindStringSubmatch(s)
	if mm == nil {
		return nil
	}
	return []string{mm[1]}
}

func queryRec(a biscuit.Authorizer, q ref.Rule) QueryRec {
	fs, err := a.Query(lower.Rule(q))
	qr := QueryRec{}
	if err != nil {
		qr.Err = ClassifyAuthz(err)
		return qr
	}
	for _, f := range fs {
		p, e := lower.BackFact(f)
		if e != nil {
			qr.Facts = append(qr.Facts, "?"+f.String())
		} else {
			qr.Facts = append(qr.Facts, p.Canon())
		}
	}
	sort.Strings(qr.Facts)
	// de-duplicate (a set of facts)
	out := qr.Facts[:0]
	for i, f := range qr.Facts {
		if i == 0 || f != qr.Facts[i-1] {
			out = append(out, f)
		}
	}
	qr.Facts = out
	return qr
}

func azErrClass(err error) string {
	switch {
	case err == nil:
		return ""
	case errors.Is(err, biscuit.ErrNoPublicKeyAvailable):
		return "nokey"
	case errors.Is(err, biscuit.ErrInvalidSignature):
		return "sig"
	}
	return "other"
}

// newAuthorizer obtains an authorizer for a token through the entry point named by via.
func (m *VM) newAuthorizer(t *TokObj, ks *KeySel, lim *Lim, via string) (biscuit.Authorizer, error, bool) {
	var opts []biscuit.AuthorizerOption
	if wo := m.worldOpts(lim); len(wo) > 0 {
		opts = append(opts, biscuit.WithWorldOptions(wo...))
	}
	src, single, ok := m.keySource(ks)
	if !ok {
		return nil, nil, false
	}
	switch via {
	case "Authorizer":
		if single == nil {
			return nil, nil, false
		}
		a, err := t.B.Authorizer(single, opts...)
		return a, err, true
	case "NewVerifier":
		a, err := biscuit.NewVerifier(t.B, opts...)
		return a, err, true
	default:
		a, err := t.B.AuthorizerFor(src, opts...)
		return a, err, true
	}
}

func short(s string) string {
	if len(s) > 300 {
		return s[:300] + "…"
	}
	return s
}

func rootIDStr(p *uint32) string {
	if p == nil {
		return "nil"
	}
	return fmt.Sprint(*p)
}

// LooseFingerprint is what must survive serialization: the Datalog of the
// blocks as printed, revocation identifiers, block count, root key id, context.
func LooseFingerprint(b *biscuit.Biscuit) string {
	var sb strings.Builder
	sb.WriteString(strings.Join(b.Code(), "\n"))
	for _, id := range b.RevocationIds() {
		fmt.Fprintf(&sb, "\n--rev-- %x", id)
	}
	fmt.Fprintf(&sb, "\n--count-- %d --rootid-- %s --ctx-- %q", b.BlockCount(), rootIDStr(b.RootKeyID()), b.GetContext())
	return sb.String()
}

// Fingerprint is everything observable about a token without evaluating Datalog.
func Fingerprint(b *biscuit.Biscuit) string {
	var sb strings.Builder
	// what the observers below might themselves change is read first, and again at the end
	fmt.Fprintf(&sb, "--before-- count %d rootid %s ctx %q\n", b.BlockCount(), rootIDStr(b.RootKeyID()), b.GetContext())
	sb.WriteString(b.String())
	sb.WriteString("\n--code--\n")
	sb.WriteString(strings.Join(b.Code(), "\n"))
	ser, err := b.Serialize()
	fmt.Fprintf(&sb, "\n--ser-- %x %v", ser, err)
	for _, id := range b.RevocationIds() {
		fmt.Fprintf(&sb, "\n--rev-- %x", id)
	}
	fmt.Fprintf(&sb, "\n--count-- %d --rootid-- %s --ctx-- %q", b.BlockCount(), rootIDStr(b.RootKeyID()), b.GetContext())
	return sb.String()
}

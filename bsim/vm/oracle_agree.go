package vm

import (
	"fmt"
	"sort"
	"strings"

	"bsim/ref"
)

// AgreeOracle is the model-free relational oracle used by the twin / replica
// properties (C03, C09, C12, C13, C18): every evaluation record carrying the
// same non-empty op.Name must agree on the selected aspects.
type AgreeOracle struct {
	Prop      string
	Invariant string
	Failed    bool // compare the set of failed checks (block indexes remapped through op.Perm when Remap)
	Remap     bool
	Queries   bool
	World     bool
	NFailed   bool // compare only the number of failed checks
	SameAz    bool // members must have been given identical authorizer content and queries (else they are no twins)
}

type agreeView struct {
	rec     int
	via     string
	class   string
	failed  string
	queries string
	world   string
	inputs  string
}

func (o AgreeOracle) AfterStep(m *VM, rec *Rec) {}

func (o AgreeOracle) AtEnd(m *VM) {
	groups := map[string][]agreeView{}
	var names []string
	for _, rec := range m.Recs {
		op := &m.Plan.Ops[rec.I]
		if op.Name == "" || rec.V == nil || rec.Panic != "" || rec.Skipped != "" {
			continue
		}
		if rec.K != "verify" && rec.K != "azauth" && rec.K != "azquery" {
			continue
		}
		if rec.Call.StallNs > 0 || rec.Call.Idle > 0 {
			continue // a stalled clock may legitimately turn this evaluation into a timeout
		}
		v := rec.V
		av := agreeView{rec: rec.I, via: rec.K, class: v.AzErr + "/" + v.Class}
		failed := v.Failed
		if o.Remap && len(op.Map) > 0 {
			// op.Map[i] = index in this lineage of block i of the reference lineage
			inv := map[int]int{}
			for i, p := range op.Map {
				inv[p] = i
			}
			var mapped []ref.CheckID
			for _, c := range failed {
				if c.Block <= 0 {
					mapped = append(mapped, c)
				} else if b, ok := inv[c.Block]; ok {
					mapped = append(mapped, ref.CheckID{Block: b, Index: c.Index})
				} else {
					mapped = append(mapped, ref.CheckID{Block: 1000 + c.Block, Index: c.Index})
				}
			}
			failed = mapped
		}
		if o.Failed {
			av.failed = idsStr(failed)
		} else if o.NFailed {
			av.failed = fmt.Sprint(len(failed))
		}
		if o.Queries {
			var qs []string
			for _, q := range v.Queries {
				qs = append(qs, q.Err+"{"+strings.Join(q.Facts, ";")+"}")
			}
			av.queries = strings.Join(qs, " ")
		}
		if o.World {
			av.world = strings.Join(v.World, "|")
		}
		if v.Az != nil {
			av.inputs = v.Az.Canon()
		} else {
			av.inputs = "?"
		}
		for _, q := range op.Qs {
			av.inputs += " ?- " + q.Canon()
		}
		if _, ok := groups[op.Name]; !ok {
			names = append(names, op.Name)
		}
		groups[op.Name] = append(groups[op.Name], av)
	}
	sort.Strings(names)
	for _, n := range names {
		g := groups[n]
		if len(g) < 2 {
			continue
		}
		m.Probe("agree_groups_compared")
		a := g[0]
		for _, b := range g[1:] {
			if o.SameAz && a.inputs != b.inputs {
				m.Probe("agree_group_not_twins_skipped")
				continue
			}
			diff := ""
			switch {
			case a.class != b.class:
				diff = fmt.Sprintf("outcome %q vs %q", a.class, b.class)
			case a.failed != b.failed:
				diff = fmt.Sprintf("failed checks {%s} vs {%s}", a.failed, b.failed)
			case a.queries != b.queries:
				diff = fmt.Sprintf("query results %s vs %s", clipS(a.queries), clipS(b.queries))
			case a.world != b.world:
				diff = fmt.Sprintf("derived facts differ:\n  %s\n  %s", clipS(a.world), clipS(b.world))
			}
			if diff != "" {
				kind := "outcome"
				switch {
				case a.class != b.class:
				case a.failed != b.failed:
					kind = "failed-checks"
				case a.queries != b.queries:
					kind = "query-results"
				default:
					kind = "derived-facts"
				}
				m.Violate(o.Prop, o.Invariant, o.Invariant+": "+kind+" differ", fmt.Sprintf("group %s: op %d (%s) and op %d (%s): %s", n, a.rec, a.via, b.rec, b.via, diff))
				break
			}
		}
	}
}

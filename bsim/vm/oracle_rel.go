package vm

import (
	"fmt"

	"bsim/ref"
)

// LineageOracle: C02. Along every derivation path, allow(child) => allow(ancestor)
// for the same authorizer content and key.
type LineageOracle struct{}

func (LineageOracle) AfterStep(m *VM, rec *Rec) {}

func (m *VM) parentOf(slot int) int {
	t := m.Tok(slot)
	if t == nil {
		return 0
	}
	if t.FromBlob > 0 {
		if b := m.Blob(t.FromBlob); b != nil && !b.Mutated {
			return b.FromTok
		}
		return 0
	}
	return t.Parent
}

func (LineageOracle) AtEnd(m *VM) {
	type res struct {
		class string
		rec   int
	}
	by := map[string]res{}
	key := func(tok int, rec *Rec) string {
		return fmt.Sprintf("%d|%s|%+v|%+v", tok, rec.V.Az.Canon(), m.Plan.Ops[rec.I].KS, rec.V.Lim)
	}
	var recs []*Rec
	for _, rec := range m.Recs {
		if rec.K != "verify" || rec.V == nil || rec.V.Az == nil || rec.Panic != "" || rec.Skipped != "" || rec.V.Class == "" {
			continue
		}
		if rec.Call.StallNs > 0 || rec.Call.Idle > 0 {
			continue
		}
		by[key(rec.V.Tok, rec)] = res{rec.V.Class, rec.I}
		recs = append(recs, rec)
	}
	for _, rec := range recs {
		child := rec.V.Tok
		t := m.Tok(child)
		if t == nil {
			continue
		}
		// a reload is the same token; an append / seal adds an edge
		for anc, depth := m.parentOf(child), 0; anc > 0 && depth < 40; anc, depth = m.parentOf(anc), depth+1 {
			pr, ok := by[key(anc, rec)]
			if !ok {
				continue
			}
			m.Probe("lineage_pairs_compared")
			if pr.class != "allow" {
				m.Probe("lineage_parent_refused")
			}
			if rec.V.Class == "allow" && pr.class != "allow" {
				m.Violate("C02", "attenuation-widens", "a derived token is allowed where its ancestor is refused ("+pr.class+")",
					fmt.Sprintf("ancestor (slot %d, op %d) => %q, descendant (slot %d, op %d) => allow\nancestor: %s\ndescendant: %s\nauthorizer: %s",
						anc, pr.rec, pr.class, child, rec.I, canonOf(m.Tok(anc)), canonOf(t), rec.V.Az.Canon()))
				return
			}
		}
	}
}

func canonOf(t *TokObj) string {
	if t == nil || t.Abs == nil {
		return "?"
	}
	return t.Abs.Canon()
}

// RepeatOracle: calling Authorize again on the same authorizer does not change the outcome (C12).
type RepeatOracle struct{}

func (RepeatOracle) AfterStep(m *VM, rec *Rec) {
	if rec.K != "verify" || rec.V == nil || rec.V.Second == "" || rec.Panic != "" {
		return
	}
	if rec.Call.StallNs > 0 || rec.Call.Idle > 0 {
		return
	}
	m.Probe("repeat_authorize_compared")
	if rec.V.Second != rec.V.Class {
		m.Violate("C12", "second-authorize-differs", "a second Authorize on the same authorizer gives another outcome", fmt.Sprintf("op %d: first %q, later %q", rec.I, rec.V.Class, rec.V.Second))
	}
}
func (RepeatOracle) AtEnd(m *VM) {}

// SnapshotOracle: the non-relational half of C18.
type SnapshotOracle struct{}

func (SnapshotOracle) AfterStep(m *VM, rec *Rec) {
	if rec.Panic != "" {
		return
	}
	switch rec.K {
	case "azsave":
		if rec.Ints["evaluated"] == 1 {
			m.Probe("snapshot_save_after_evaluation")
			if rec.Err == "" {
				m.Violate("C18", "save-after-evaluation-accepted", "SerializePolicies succeeded on an evaluated authorizer", fmt.Sprintf("op %d", rec.I))
			}
		} else if rec.Err != "" {
			m.Violate("C18", "save-refused", "SerializePolicies failed on an unevaluated authorizer", fmt.Sprintf("op %d: %s", rec.I, rec.Err))
		}
	case "azload":
		if rec.Ints["clean_snapshot"] == 1 {
			m.Probe("snapshot_restored_clean")
		} else if rec.Ints["mutated"] == 1 {
			m.Probe("snapshot_loaded_faulty")
			if rec.Err != "" {
				m.Probe("snapshot_faulty_rejected")
			}
		}
		if rec.Ints["mutated"] == 0 && rec.Err != "" {
			m.Violate("C18", "clean-snapshot-rejected", "LoadPolicies failed on bytes written by SerializePolicies", fmt.Sprintf("op %d: %s", rec.I, rec.Err))
		}
	}
}
func (SnapshotOracle) AtEnd(m *VM) {}

// HostileProbe counts how far hostile tokens get (C10 reach probes).
type HostileProbe struct{}

func (HostileProbe) AfterStep(m *VM, rec *Rec) {
	op := &m.Plan.Ops[rec.I]
	switch rec.K {
	case "unm":
		if b := m.Blob(op.A); b != nil && (b.Hostile || b.Mutated) {
			if rec.Err == "" {
				m.Probe("hostile_unmarshal_ok")
			} else {
				m.Probe("hostile_unmarshal_rejected")
			}
		}
	case "verify":
		if t := m.Tok(op.A); t != nil && t.Hostile && rec.V != nil {
			if rec.V.Class != "" {
				m.Probe("hostile_authorize_reached")
				m.Probe("hostile_verdict_" + rec.V.Class)
			} else {
				m.Probe("hostile_rejected_at_verification")
			}
		}
	case "attenuate", "seal", "ser", "print", "blockid":
		if t := m.Tok(op.A); t != nil && t.Hostile {
			m.Probe("hostile_" + rec.K)
		}
	}
}
func (HostileProbe) AtEnd(m *VM) {}

// QueryOracle: results of authorizer queries are exactly what the
// authority-level closure (authorizer + authority block) yields, whatever later
// blocks carry and whatever happened to their evaluation (C03: block facts and
// rules reach only the block's own checks).
type QueryOracle struct{ Prop string }

func (o QueryOracle) AfterStep(m *VM, rec *Rec) {
	if (rec.K != "verify" && rec.K != "azauth") || rec.V == nil || rec.Panic != "" || rec.V.Class == "" || rec.V.Class == "queried" {
		return
	}
	op := &m.Plan.Ops[rec.I]
	if len(rec.V.Queries) == 0 || len(rec.V.Queries) != len(op.Qs) {
		return
	}
	out, ok := m.RefOutcome(rec)
	if !ok || out.Uncertain {
		return
	}
	clockMoved := rec.Call.StallNs > 0 || rec.Call.Idle > 0
	partial := len(rec.V.Class) >= 5 && rec.V.Class[:5] == "limit" || clockMoved
	for qi, q := range op.Qs {
		qr := rec.V.Queries[qi]
		if qr.Err != "" {
			continue
		}
		rq := ref.Query(q, out.AuthorityFacts)
		if rq.ExprErr || rq.Unbound {
			continue
		}
		want := map[string]bool{}
		for _, k := range rq.Heads.Keys() {
			want[k] = true
		}
		m.Probe("query_scope_checked")
		if partial {
			m.Probe("query_scope_checked_after_limit")
		}
		extra := ""
		for _, f := range qr.Facts {
			if !want[f] {
				extra = f
				break
			}
		}
		missing := ""
		if !partial {
			got := map[string]bool{}
			for _, f := range qr.Facts {
				got[f] = true
			}
			for k := range want {
				if !got[k] {
					missing = k
				}
			}
		}
		if extra != "" {
			m.Violate(o.Prop, "query-sees-out-of-scope-fact", "an authorizer query returned a fact that the authority-level closure does not contain",
				fmt.Sprintf("op %d (verdict %s): query %s returned %s\ntoken: %s\nauthorizer: %s", rec.I, rec.V.Class, q.Canon(), extra, canonOf(m.Tok(rec.V.Tok)), rec.V.Az.Canon()))
			return
		}
		if missing != "" {
			m.Violate(o.Prop, "query-misses-fact", "an authorizer query misses a fact of the authority-level closure",
				fmt.Sprintf("op %d (verdict %s): query %s misses %s\ntoken: %s\nauthorizer: %s", rec.I, rec.V.Class, q.Canon(), missing, canonOf(m.Tok(rec.V.Tok)), rec.V.Az.Canon()))
			return
		}
	}
}
func (o QueryOracle) AtEnd(m *VM) {}

package vm

import (
	"fmt"
	"strings"

	"bsim/ref"
)

// ---- oracles that apply to every profile

// Common reports recovered panics and stranded goroutines.
type Common struct{ Prop string }

func (c Common) AfterStep(m *VM, rec *Rec) {
	if rec.Panic != "" {
		prop := c.Prop
		if rec.Ints["entropy_failed"] == 1 || (m.CurRand != nil && m.CurRand.Failed) {
			prop = "C20"
		} else if t := m.Tok(m.Plan.Ops[rec.I].A); t != nil && t.Hostile {
			prop = "C10"
		} else if b := m.Blob(m.Plan.Ops[rec.I].A); b != nil && (b.Hostile || b.Mutated) {
			prop = "C10"
		}
		first := rec.Panic
		if i := strings.Index(first, "\n"); i > 0 {
			first = first[:i]
		}
		frames := ""
		if i := strings.Index(rec.Panic, "\n"); i > 0 {
			frames = rec.Panic[i+1:]
		}
		if !strings.Contains(frames, "biscuit-go/v2") {
			m.Res.Internal = "harness panic in " + rec.K + ": " + rec.Panic
			return
		}
		m.Violate(prop, "panic", "panic in "+rec.K+": "+topLibFrame(frames)+": "+normPanic(first), fmt.Sprintf("op %d (%s) panicked: %s", rec.I, rec.K, rec.Panic))
	}
	for _, s := range rec.Call.Stranded {
		m.Probe("stranded_goroutine")
		m.Violate("C11", "stranded-goroutine", "stranded: "+s, fmt.Sprintf("after op %d (%s, result %q) returned, a library goroutine is blocked forever: %s", rec.I, rec.K, rec.Class, s))
	}
	if rec.Call.Deadlock {
		m.Violate("C11", "call-never-returns", "deadlock in "+rec.K, fmt.Sprintf("op %d (%s) never returned although the clock ran", rec.I, rec.K))
	}
}
func (c Common) AtEnd(m *VM) {}

func topLibFrame(frames string) string {
	for _, f := range strings.Split(frames, " < ") {
		if strings.Contains(f, "biscuit-go/v2") {
			return strings.TrimPrefix(f, "github.com/biscuit-auth/biscuit-go/v2")
		}
	}
	if i := strings.Index(frames, " < "); i > 0 {
		return frames[:i]
	}
	return frames
}

func normPanic(s string) string {
	// strip run-specific numbers from the panic message so that it is a stable signature
	out := make([]rune, 0, len(s))
	for _, r := range s {
		if r >= '0' && r <= '9' {
			if len(out) > 0 && out[len(out)-1] == '#' {
				continue
			}
			out = append(out, '#')
			continue
		}
		out = append(out, r)
	}
	if len(out) > 120 {
		out = out[:120]
	}
	return string(out)
}

// ---- datalog level: C05 and C11(a)

type DLOracle struct{ Prop string }

const refCap = 4000

func limOf(l *Lim) (maxFacts, maxIter int, maxDur int64) {
	maxFacts, maxIter, maxDur = 1000, 100, 2e6 // documented defaults
	if l != nil {
		if l.MaxFacts > 0 {
			maxFacts = l.MaxFacts
		}
		if l.MaxIter > 0 {
			maxIter = l.MaxIter
		}
		if l.MaxDurNs > 0 {
			maxDur = l.MaxDurNs
		}
	}
	return
}

func (o DLOracle) AfterStep(m *VM, rec *Rec) {
	if rec.K != "dl" || rec.Panic != "" || rec.Call.Deadlock {
		return
	}
	op := &m.Plan.Ops[rec.I]
	model := ref.LeastModel(ref.FactSetOf(op.Blk.Facts), op.Blk.Rules, refCap)
	maxFacts, maxIter, maxDur := limOf(op.Lim)
	elapsed := int64(rec.Ints["elapsed_ns"])
	clockMoved := rec.Call.StallNs > 0 || rec.Call.Idle > 0
	wellFormed := !model.ExprErr && !model.Unbound
	if clockMoved {
		m.Probe("dl_clock_moved_during_run")
	}
	switch rec.Class {
	case "ok":
		m.Probe("dl_ok")
	case "limit:facts", "limit:iter", "limit:timeout":
		m.Probe("dl_" + rec.Class)
	default:
		m.Probe("dl_other_error")
	}
	// S4 (the call returns at the deadline even while the worker is stalled) is recorded as a
	// probe only: the property demands a distinguishable error once the duration is exceeded,
	// not that the caller wakes up at the deadline itself; an implementation that notices the
	// deadline at its next poll after the stall satisfies the property and must not be flagged.
	// What must hold is bounded lateness: never later than the deadline plus the injected stalls.
	if elapsed > maxDur {
		m.Probe("dl_returned_after_deadline")
		if elapsed > maxDur+rec.Call.StallNs && rec.Call.Idle == 0 {
			m.Violate(o.Prop, "S4-unbounded-call", "Run returned later than the deadline plus every injected stall", fmt.Sprintf("Run returned %q after %d ns of simulated time, limit %d ns, stalls %d ns", rec.Class, elapsed, maxDur, rec.Call.StallNs))
		}
	}
	// ... and bounded lateness in work: once the clock is past the deadline of this call, the call
	// returns without waiting for its worker to get somewhere. An implementation whose caller polls,
	// or whose worker polls at every combination, needs a step or two; one that makes the caller
	// wait for the end of the current rule application needs as many steps as that application has
	// left, which no duration limit bounds.
	if rec.Ints["past_deadline"] == 1 && !op.Has("rerun") && !op.Has("incremental") {
		m.Probe("dl_deadline_passed_during_run")
		if late := rec.Ints["steps_past_deadline"]; late > 8 {
			m.Violate(o.Prop, "S4-return-waits-for-worker", "Run returned only after its goroutines were scheduled many more times past the deadline", fmt.Sprintf("Run returned %q %d scheduling steps after the stall that carried the clock past the deadline (limit %d ns, elapsed %d ns)", rec.Class, late, maxDur, elapsed))
		}
	}
	if model.ExprErr && !model.Unbound && !model.Capped {
		m.Probe("dl_expression_error_in_least_model")
		if rec.Class == "ok" && !clockMoved {
			// some complete match of some rule makes an expression fail: the evaluation enumerates every
			// match of every rule over the facts it ends with, so it has met that match and cannot have
			// completed "without error" (C05, first sentence; C11: success only when the fixpoint was reached)
			m.Violate(o.Prop, "S1-success-despite-failing-expression", "Run()==nil although a rule's expression fails on a match", fmt.Sprintf("Run returned nil with %d facts; the reference finds a complete match whose expression evaluation fails", rec.Ints["nfacts"]))
		}
	}
	if !wellFormed {
		m.Probe("dl_ill_formed_program")
		if rec.Class == "ok" && model.Unbound {
			m.Violate(o.Prop, "S1-success-on-invalid-rule", "Run()==nil with unbound head variable", "a rule with a head variable unbound by its body matched, yet Run reported success")
		}
		return
	}
	if model.Capped {
		m.Probe("dl_ref_capped")
	}
	if rec.Class == "ok" {
		got := rec.Strs["facts"]
		want := strings.Join(model.Facts.Keys(), "\n")
		if !model.Capped && got != want {
			m.Violate(o.Prop, "lfp-mismatch", "Run()==nil but facts != least model", fmt.Sprintf("missing/extra facts.\nlibrary: %s\nreference: %s", oneLine(got), oneLine(want)))
			return
		}
		if model.Capped || len(model.Facts) > maxFacts {
			m.Violate(o.Prop, "S2-maxfacts-not-honoured", "Run()==nil with more facts than maxFacts", fmt.Sprintf("least model has %d facts (capped=%v), maxFacts=%d, Run returned nil", len(model.Facts), model.Capped, maxFacts))
		}
		if len(op.Blk.Rules) == 1 && model.Depth > maxIter {
			m.Violate(o.Prop, "S2-maxiter-not-honoured", "Run()==nil needing more rounds than maxIterations", fmt.Sprintf("single recursive rule needs %d rounds, maxIterations=%d, Run returned nil", model.Depth, maxIter))
		}
		if len(op.Blk.Rules) > 1 && model.Depth >= 2*maxIter+2 {
			m.Violate(o.Prop, "S2-maxiter-not-honoured", "Run()==nil needing more rounds than maxIterations", fmt.Sprintf("program needs %d simultaneous rounds, maxIterations=%d, Run returned nil", model.Depth, maxIter))
		}
		if elapsed >= maxDur && maxDur > 0 {
			m.Violate(o.Prop, "S2-maxduration-not-honoured", "Run()==nil after the deadline", fmt.Sprintf("elapsed %d >= maxDuration %d", elapsed, maxDur))
		}
		// query results (C05, second sentence)
		for qi, q := range op.Qs {
			qr := ref.Query(q, model.Facts)
			if qr.ExprErr || qr.Unbound || model.Capped {
				continue
			}
			got := rec.Strs[fmt.Sprintf("q%d", qi)]
			want := strings.Join(qr.Heads.Keys(), "\n")
			if len(qr.Heads) > 0 {
				m.Probe("dl_query_nonempty")
			}
			if got != want {
				m.Violate(o.Prop, "query-mismatch", "QueryRule result != reference", fmt.Sprintf("query %s\nlibrary: %s\nreference: %s", q.Canon(), oneLine(got), oneLine(want)))
			}
		}
		return
	}
	// non-nil result of a well-formed, error-free program: must be a possible limit
	switch rec.Class {
	case "limit:facts":
		if !model.Capped && len(model.Facts) < maxFacts {
			m.Violate(o.Prop, "S3-impossible-limit", "MaxFacts reported but least model is smaller", fmt.Sprintf("least model has %d facts, maxFacts=%d", len(model.Facts), maxFacts))
		}
	case "limit:iter":
		if !model.Capped && model.Depth+1 < maxIter {
			m.Violate(o.Prop, "S3-impossible-limit", "MaxIterations reported but fixpoint is reached earlier", fmt.Sprintf("needs %d rounds (+1 to confirm), maxIterations=%d", model.Depth, maxIter))
		}
	case "limit:timeout":
		if rec.Call.StallNs < maxDur && rec.Call.Idle == 0 {
			m.Violate(o.Prop, "S3-impossible-limit", "Timeout reported but the clock did not pass the deadline", fmt.Sprintf("clock advanced %d ns during the call, maxDuration=%d", rec.Call.StallNs, maxDur))
		}
		if rec.Call.Idle > 0 {
			m.Probe("dl_timeout_rescued_hung_run")
		}
	default:
		m.Violate(o.Prop, "S3-indistinguishable-error", "well-formed program failed with an error that is no limit sentinel", fmt.Sprintf("Run returned %q (%s)", rec.Class, rec.Err))
	}
}

func (o DLOracle) AtEnd(m *VM) {}

func oneLine(s string) string {
	s = strings.ReplaceAll(s, "\n", " | ")
	if len(s) > 500 {
		s = s[:500] + "…"
	}
	return s
}

package vm

import (
	"crypto/ed25519"
	"crypto/sha512"
	"encoding/hex"
	"math/big"

	"bsim/ref"
)

// Disk is the simulated disk: a write reaches media only on sync; a crash
// keeps only synced bytes; writes can be lost, torn, short or bit-flipped.
type Disk struct {
	files map[string]*dfile
}

type dfile struct {
	durable, pending       []byte
	hasDurable, hasPending bool
	dirtyD, dirtyP         bool
}

func NewDisk() *Disk { return &Disk{files: map[string]*dfile{}} }

func (d *Disk) f(name string) *dfile {
	f := d.files[name]
	if f == nil {
		f = &dfile{}
		d.files[name] = f
	}
	return f
}

// Write returns the fault kind that actually took effect ("" for a clean write).
func (d *Disk) Write(name string, data []byte, fault string, n int) string {
	f := d.f(name)
	cp := append([]byte(nil), data...)
	switch fault {
	case "lost":
		return "lost_write"
	case "torn", "short":
		if len(cp) == 0 {
			break
		}
		if n < 0 {
			n = -n
		}
		cp = cp[:n%len(cp)]
		f.pending, f.hasPending, f.dirtyP = cp, true, true
		return fault + "_write"
	case "flip":
		if len(cp) == 0 {
			break
		}
		if n < 0 {
			n = -n
		}
		cp[(n/8)%len(cp)] ^= 1 << uint(n%8)
		f.pending, f.hasPending, f.dirtyP = cp, true, true
		return "bit_flip_at_rest"
	}
	f.pending, f.hasPending, f.dirtyP = cp, true, false
	return ""
}

func (d *Disk) Sync(name string) {
	f := d.f(name)
	if f.hasPending {
		f.durable, f.hasDurable, f.dirtyD = f.pending, true, f.dirtyP
	}
}

func (d *Disk) Crash() {
	for _, f := range d.files {
		f.pending, f.hasPending, f.dirtyP = f.durable, f.hasDurable, f.dirtyD
	}
}

func (d *Disk) Read(name string) ([]byte, bool) {
	f := d.files[name]
	if f == nil || !f.hasPending {
		return nil, false
	}
	return append([]byte(nil), f.pending...), true
}

func (d *Disk) Dirty(name string) bool {
	f := d.files[name]
	return f != nil && f.dirtyP
}

// ---- transport / adversary mutations

func abs(n int) int {
	if n < 0 {
		return -n
	}
	return n
}

// applyMut applies one mutation; ok=false when it does not apply to these bytes.
func (m *VM) applyMut(data, donor []byte, mu Mut) ([]byte, bool) {
	out := append([]byte(nil), data...)
	switch mu.Kind {
	case "flip":
		if len(out) == 0 {
			return nil, false
		}
		p := abs(mu.Pos) % (len(out) * 8)
		out[p/8] ^= 1 << uint(p%8)
		return out, true
	case "set":
		if len(out) == 0 {
			return nil, false
		}
		out[abs(mu.Pos)%len(out)] = byte(mu.Val)
		return out, true
	case "trunc":
		if len(out) == 0 {
			return nil, false
		}
		return out[:abs(mu.Pos)%len(out)], true
	case "extend":
		ext, _ := hex.DecodeString(mu.Data)
		return append(out, ext...), true
	case "splice":
		if len(donor) == 0 || len(out) == 0 {
			return nil, false
		}
		a := abs(mu.Pos) % len(out)
		b := abs(mu.I) % len(donor)
		n := abs(mu.J) % (len(donor) - b + 1)
		res := append([]byte(nil), out[:a]...)
		res = append(res, donor[b:b+n]...)
		if a+n <= len(out) {
			res = append(res, out[a+n:]...)
		}
		return res, true
	}
	env, err := ref.DecodeBiscuit(data)
	if err != nil {
		return nil, false
	}
	env = env.Clone()
	var denv *ref.WBiscuit
	if donor != nil {
		if d, err := ref.DecodeBiscuit(donor); err == nil {
			denv = d
		}
	}
	all := env.All()
	n := len(all)
	setAll := func(a []*ref.WSignedBlock) {
		env.Authority = a[0]
		env.Blocks = a[1:]
	}
	var atk *KeyObj
	if mu.Key > 0 {
		atk = m.Key(mu.Key)
	}
	i, j := abs(mu.I)%n, abs(mu.J)%n
	switch mu.Kind {
	case "swap_blocks":
		if n < 2 || i == j {
			return nil, false
		}
		all[i], all[j] = all[j], all[i]
		setAll(all)
	case "drop_last":
		k := 1 + abs(mu.I)%n
		if k >= n {
			return nil, false
		}
		setAll(all[:n-k])
	case "drop_mid":
		if n < 3 {
			return nil, false
		}
		k := 1 + abs(mu.I)%(n-2)
		setAll(append(all[:k:k], all[k+1:]...))
	case "dup_block":
		na := append([]*ref.WSignedBlock{}, all[:i+1]...)
		na = append(na, all[i])
		na = append(na, all[i+1:]...)
		setAll(na)
	case "subst_sig", "subst_key", "subst_block", "subst_whole":
		if denv == nil {
			return nil, false
		}
		da := denv.All()
		d := da[abs(mu.J)%len(da)]
		switch mu.Kind {
		case "subst_sig":
			all[i].Signature = append([]byte(nil), d.Signature...)
		case "subst_key":
			all[i].Key = append([]byte(nil), d.Key...)
		case "subst_block":
			all[i].Block = append([]byte(nil), d.Block...)
		default:
			c := *d
			all[i] = &c
		}
		setAll(all)
	case "insert_attacker", "append_attacker", "replace_attacker":
		// a block made by the attacker, signed with the attacker's key, announcing a key it controls
		if atk == nil {
			return nil, false
		}
		blk, _ := hex.DecodeString(mu.Data)
		nxt := ed25519.NewKeyFromSeed(seedFrom(atk.Priv.Seed(), byte(mu.Val)))
		sb := &ref.WSignedBlock{Block: blk, Alg: 0, Key: nxt.Public().(ed25519.PublicKey)}
		sb.Signature = ed25519.Sign(atk.Priv, ref.SignedPayload(sb))
		switch mu.Kind {
		case "insert_attacker":
			k := 1 + abs(mu.I)%n
			na := append([]*ref.WSignedBlock{}, all[:k]...)
			na = append(na, sb)
			na = append(na, all[k:]...)
			setAll(na)
		case "replace_attacker":
			all[i] = sb
			setAll(all)
		default:
			setAll(append(all, sb))
			if mu.Val%2 == 0 {
				// also give a proof that matches the attacker's announced key
				env.NextSecret, env.FinalSignature = nxt.Seed(), nil
			}
		}
	case "forge_small_order":
		// A brand-new single-block token that needs no private key at all: it verifies under the
		// all-zero 32 bytes read as a public key (a curve point of order 4) with S = 0 and R one of
		// the four multiples of that point. No honest verifier holds such a key; a verifier that
		// answers "no key available" with a zeroed key buffer instead of an error accepts it.
		if atk == nil {
			return nil, false
		}
		blk := all[0].Block
		if mu.Data != "" {
			blk, _ = hex.DecodeString(mu.Data)
		}
		zero := make([]byte, 32)
		var sb *ref.WSignedBlock
		var nxt ed25519.PrivateKey
		for salt := 0; salt < 64 && sb == nil; salt++ {
			nxt = ed25519.NewKeyFromSeed(seedFrom(atk.Priv.Seed(), byte(salt)))
			c := &ref.WSignedBlock{Block: blk, Alg: 0, Key: nxt.Public().(ed25519.PublicKey)}
			payload := ref.SignedPayload(c)
			for ci := range smallOrderR {
				h := sha512.New()
				h.Write(smallOrderR[ci])
				h.Write(zero)
				h.Write(payload)
				if kModL(h.Sum(nil))%4 != ci {
					continue
				}
				sig := append(append([]byte{}, smallOrderR[ci]...), zero...)
				if ed25519.Verify(ed25519.PublicKey(zero), payload, sig) {
					c.Signature = sig
					sb = c
					break
				}
			}
		}
		if sb == nil {
			return nil, false
		}
		env.RootKeyID = nil
		setAll([]*ref.WSignedBlock{sb})
		env.HasProof, env.NextSecret, env.FinalSignature = true, nxt.Seed(), nil
	case "append_captured":
		// legitimate: the adversary saw an unsealed token and appends with its next secret
		if len(env.NextSecret) != 32 {
			return nil, false
		}
		blk, _ := hex.DecodeString(mu.Data)
		sk := ed25519.NewKeyFromSeed(env.NextSecret)
		nxt := ed25519.NewKeyFromSeed(seedFrom(env.NextSecret, byte(mu.Val)))
		sb := &ref.WSignedBlock{Block: blk, Alg: 0, Key: nxt.Public().(ed25519.PublicKey)}
		sb.Signature = ed25519.Sign(sk, ref.SignedPayload(sb))
		setAll(append(all, sb))
		env.NextSecret = nxt.Seed()
	case "rekey":
		// announce an attacker key in block i and re-sign every successor with attacker keys
		if atk == nil {
			return nil, false
		}
		cur := atk.Priv
		all[i].Key = append([]byte(nil), atk.Pub...)
		for k := i + 1; k < n; k++ {
			nxt := ed25519.NewKeyFromSeed(seedFrom(atk.Priv.Seed(), byte(k)))
			all[k].Key = nxt.Public().(ed25519.PublicKey)
			all[k].Signature = ed25519.Sign(cur, ref.SignedPayload(all[k]))
			cur = nxt
		}
		setAll(all)
		if env.FinalSignature != nil {
			env.FinalSignature = ed25519.Sign(cur, ref.SealPayload(all[n-1]))
		} else {
			env.NextSecret = cur.Seed()
		}
	case "proof_from_donor":
		if denv == nil {
			return nil, false
		}
		env.NextSecret, env.FinalSignature = denv.NextSecret, denv.FinalSignature
	case "proof_attacker_seal":
		if atk == nil {
			return nil, false
		}
		env.FinalSignature, env.NextSecret = ed25519.Sign(atk.Priv, ref.SealPayload(all[n-1])), nil
	case "proof_attacker_secret":
		if atk == nil {
			return nil, false
		}
		env.NextSecret, env.FinalSignature = atk.Priv.Seed(), nil
	case "proof_crafted":
		// proofs a key-less party can assemble from public parts of the token
		last := all[n-1]
		rnd := seedFrom(last.Signature[:min(32, len(last.Signature))], byte(mu.Val))
		switch abs(mu.Val) % 11 {
		case 8: // a proof message that is present and says nothing
			env.NextSecret, env.FinalSignature, env.ProofRaw = nil, nil, []byte{}
		case 9, 10: // the genuine proof moved to a field number the schema does not know (one changed tag byte)
			var w ref.W
			body := env.FinalSignature
			if body == nil {
				body = env.NextSecret
			}
			w.FBytes(3+abs(mu.Val)%2*4, body)
			env.NextSecret, env.FinalSignature, env.ProofRaw = nil, nil, w.B
		case 0: // the announced public key offered as the secret
			env.NextSecret, env.FinalSignature = append([]byte{}, last.Key...), nil
		case 1: // 64 bytes "expanded key": arbitrary seed half, announced key as public half
			env.NextSecret, env.FinalSignature = append(append([]byte{}, rnd...), last.Key...), nil
		case 2:
			env.NextSecret, env.FinalSignature = append(append([]byte{}, last.Key...), last.Key...), nil
		case 3: // the last block's own signature offered as the seal
			env.FinalSignature, env.NextSecret = append([]byte{}, last.Signature...), nil
		case 4: // another block's signature offered as the seal
			env.FinalSignature, env.NextSecret = append([]byte{}, all[i].Signature...), nil
		case 5: // both proofs present: last one on the wire wins; first the attacker's, then garbage
			env.NextSecret, env.FinalSignature = rnd, nil
		case 6: // empty secret / empty seal
			env.NextSecret, env.FinalSignature = []byte{}, nil
		default:
			env.FinalSignature, env.NextSecret = []byte{}, nil
		}
	case "forge_tail":
		// replace the last block by attacker content announcing an attacker key and close the
		// token with that key (seal if it was sealed, secret otherwise); optionally after truncation
		if atk == nil {
			return nil, false
		}
		if mu.J%2 == 1 && n > 1 {
			k := 1 + abs(mu.I)%(n-1)
			all = all[:n-k]
			n = len(all)
		}
		blk, _ := hex.DecodeString(mu.Data)
		nxt := ed25519.NewKeyFromSeed(seedFrom(atk.Priv.Seed(), byte(mu.Val)))
		sb := &ref.WSignedBlock{Block: blk, Alg: 0, Key: nxt.Public().(ed25519.PublicKey)}
		switch abs(mu.Val) % 3 {
		case 0:
			sb.Signature = ed25519.Sign(atk.Priv, ref.SignedPayload(sb))
		case 1:
			sb.Signature = make([]byte, 64)
		default:
			sb.Signature = append([]byte{}, all[n-1].Signature...)
		}
		if n == 1 {
			return nil, false // never replace the authority block here (that is replace_attacker)
		}
		all[n-1] = sb
		setAll(all)
		if env.FinalSignature != nil {
			env.FinalSignature = ed25519.Sign(nxt, ref.SealPayload(sb))
		} else {
			env.NextSecret = nxt.Seed()
		}
	case "seal_captured":
		// legitimate: whoever sees an unsealed token can seal it
		if len(env.NextSecret) != 32 {
			return nil, false
		}
		sk := ed25519.NewKeyFromSeed(env.NextSecret)
		env.FinalSignature, env.NextSecret = ed25519.Sign(sk, ref.SealPayload(all[n-1])), nil
	case "seal_sig_flip":
		if len(env.FinalSignature) == 0 {
			return nil, false
		}
		p := abs(mu.Pos) % (len(env.FinalSignature) * 8)
		env.FinalSignature[p/8] ^= 1 << uint(p%8)
	case "last_key_flip":
		if len(all[n-1].Key) == 0 {
			return nil, false
		}
		p := abs(mu.Pos) % (len(all[n-1].Key) * 8)
		all[n-1].Key[p/8] ^= 1 << uint(p%8)
	case "block_flip":
		if len(all[i].Block) == 0 {
			return nil, false
		}
		p := abs(mu.Pos) % (len(all[i].Block) * 8)
		all[i].Block[p/8] ^= 1 << uint(p%8)
	case "sig_flip":
		if len(all[i].Signature) == 0 {
			return nil, false
		}
		p := abs(mu.Pos) % (len(all[i].Signature) * 8)
		all[i].Signature[p/8] ^= 1 << uint(p%8)
	case "key_flip":
		if len(all[i].Key) == 0 {
			return nil, false
		}
		p := abs(mu.Pos) % (len(all[i].Key) * 8)
		all[i].Key[p/8] ^= 1 << uint(p%8)
	case "secret_flip":
		if len(env.NextSecret) == 0 {
			return nil, false
		}
		p := abs(mu.Pos) % (len(env.NextSecret) * 8)
		env.NextSecret[p/8] ^= 1 << uint(p%8)
	case "rootid":
		if mu.Val < 0 {
			env.RootKeyID = nil
		} else {
			v := uint32(mu.Val)
			env.RootKeyID = &v
		}
	case "alg":
		all[i].Alg = uint64(abs(mu.Val))
	case "unknown_field":
		var w ref.W
		w.FBytes(15+abs(mu.Val)%100, []byte("bsim"))
		env.Unknown = append(env.Unknown, w.B)
	case "sig_len", "key_len", "secret_len":
		l := abs(mu.Val) % 80
		buf := make([]byte, l)
		switch mu.Kind {
		case "sig_len":
			copy(buf, all[i].Signature)
			all[i].Signature = buf
		case "key_len":
			copy(buf, all[i].Key)
			all[i].Key = buf
		default:
			if env.NextSecret == nil {
				return nil, false
			}
			copy(buf, env.NextSecret)
			env.NextSecret = buf
		}
	case "resign_root":
		// the issuer itself (or a fault in its signer) emits authority bytes Data signed by the root key
		k := m.Key(mu.Key)
		if k == nil {
			return nil, false
		}
		blk, _ := hex.DecodeString(mu.Data)
		all[0].Block = blk
		all[0].Signature = ed25519.Sign(k.Priv, ref.SignedPayload(all[0]))
		setAll(all)
	case "version":
		// rewrite the version of the last block and re-sign it with the key that legitimately signs it
		// (root key for a single-block token; otherwise not possible without the previous secret)
		if n != 1 {
			return nil, false
		}
		k := m.Key(mu.Key)
		if k == nil {
			return nil, false
		}
		wb, err := ref.DecodeBlock(all[0].Block)
		if err != nil {
			return nil, false
		}
		if mu.Val < 0 {
			wb.HasVersion = false
		} else {
			wb.Version, wb.HasVersion = uint32(mu.Val), true
		}
		all[0].Block = wb.Encode()
		all[0].Signature = ed25519.Sign(k.Priv, ref.SignedPayload(all[0]))
		setAll(all)
	default:
		return nil, false
	}
	return env.Encode(), true
}

// smallOrderR[i] is the encoding of -[i]A for A = the point encoded by 32 zero bytes (order 4):
// the identity, -A, 2A (= the point of order 2), A.
var smallOrderR = [4][]byte{
	append([]byte{1}, make([]byte, 31)...),
	append(make([]byte, 31), 0x80),
	append(append([]byte{0xec}, bytesOf(0xff, 30)...), 0x7f),
	make([]byte, 32),
}

func bytesOf(b byte, n int) []byte {
	out := make([]byte, n)
	for i := range out {
		out[i] = b
	}
	return out
}

var ed25519L, _ = new(big.Int).SetString("7237005577332262213973186563042994240857116359379907606001950938285454250989", 10)

// kModL reduces a 64-byte little-endian hash modulo the group order and returns it modulo 4.
func kModL(h []byte) int {
	be := make([]byte, len(h))
	for i := range h {
		be[len(h)-1-i] = h[i]
	}
	k := new(big.Int).SetBytes(be)
	k.Mod(k, ed25519L)
	return int(new(big.Int).Mod(k, big.NewInt(4)).Int64())
}

func seedFrom(base []byte, salt byte) []byte {
	out := make([]byte, 32)
	copy(out, base)
	out[0] ^= salt
	out[31] ^= 0x5a
	return out
}

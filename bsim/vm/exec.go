package vm

import (
	"bytes"
	"crypto/ed25519"
	crand "crypto/rand"
	"encoding/hex"
	"errors"
	"fmt"
	"io"
	"runtime"
	"sort"
	"strings"
	"time"

	biscuit "github.com/biscuit-auth/biscuit-go/v2"
	"github.com/biscuit-auth/biscuit-go/v2/datalog"

	"bsim/lower"
	"bsim/ref"
	"bsim/sched"
)

// Run executes the plan inside one synctest bubble.
func Run(p *Plan, oracles func(*VM) []Oracle, trace bool) *Result {
	res := &Result{Run: p.Run, PlanHash: p.Hash(), Probes: map[string]int{}, Faults: map[string]int{}}
	sim := sched.New(p.Tape, p.Faults)
	sim.KeepTrace = trace
	sim.LazyDrain = p.Lazy
	m := &VM{Plan: p, Sim: sim, Res: res, Slots: []interface{}{nil}, Disk: NewDisk(), Ext: map[string]interface{}{}}
	if oracles != nil {
		m.Oracles = oracles(m)
	}
	states := map[string]bool{}
	berr, simNs := sim.Bubble(func() {
		defer func() {
			// a panic on the scheduler goroutine is a harness bug, never a verdict
			if r := recover(); r != nil {
				buf := make([]byte, 1<<14)
				n := runtime.Stack(buf, false)
				// ... unless the function that panicked is the library's: an oracle observing a live
				// object (String, Serialize, RevocationIds, ...) is an ordinary caller
				if fn := panickingFunc(string(buf[:n])); strings.Contains(fn, "biscuit-go/v2") {
					fn = strings.TrimPrefix(fn, "github.com/biscuit-auth/biscuit-go/v2")
					m.Violate(p.Property, "panic", "panic while observing a live object: "+fn+": "+normPanic(fmt.Sprint(r)), fmt.Sprintf("after op %d: %v\n%s", m.cur, r, buf[:n]))
					return
				}
				res.Internal = fmt.Sprintf("harness panic: %v\n%s", r, buf[:n])
			}
		}()
		for i := range p.Ops {
			m.cur = i
			rec := m.step(i, &p.Ops[i])
			m.Recs = append(m.Recs, rec)
			sim.Note(fmt.Sprintf("op%d:%s:%s:%s:%s", i, rec.K, rec.Skipped, rec.Class, short(rec.Err)))
			if rec.Skipped == "" {
				for _, o := range m.Oracles {
					o.AfterStep(m, rec)
				}
			}
			states[m.abstractState()] = true
		}
		m.cur = len(p.Ops)
		if left := sim.Finish(); len(left) > 0 {
			for _, s := range left {
				m.Probe("stranded_goroutine")
				m.Violate("C11", "stranded-goroutine", "stranded: "+s, "at the end of the run (goroutines left behind by calls were allowed to run on during later calls) a library goroutine is blocked forever: "+s)
			}
			m.Ext["stranded_at_finish"] = len(left)
		}
		if sim.Stats.LeftBehind > 0 {
			m.Probe("goroutines_outliving_their_call")
		}
		for _, o := range m.Oracles {
			o.AtEnd(m)
		}
	})
	stranded := 0
	for _, r := range m.Recs {
		stranded += len(r.Call.Stranded)
	}
	if n, ok := m.Ext["stranded_at_finish"].(int); ok {
		stranded += n
	}
	if berr != "" {
		if strings.Contains(berr, "blocked goroutines remain") || strings.Contains(berr, "deadlock") {
			if stranded == 0 {
				// synctest saw blocked goroutines that the census did not attribute to the library
				res.Internal = "bubble ended with blocked goroutines not attributed by the census: " + berr
			}
		} else {
			res.Internal = "bubble: " + berr
		}
	}
	res.Steps = sim.Step
	res.Ops = len(p.Ops)
	res.SimNs = simNs
	res.StallNs = sim.Stats.StallNs
	res.SchedHash = fmt.Sprintf("%016x", sim.Hash())
	res.EventHash = res.SchedHash
	res.Sites = sim.Stats.SiteCounts
	if sim.Stats.Stalls > 0 {
		res.Faults["clock_stall"] += sim.Stats.Stalls
	}
	if sim.Stats.IdleAdv > 0 {
		res.Probes["idle_clock_advance"] += sim.Stats.IdleAdv
	}
	for s := range states {
		res.States = append(res.States, s)
	}
	sort.Strings(res.States)
	if trace {
		res.Trace = sim.Trace
	}
	return res
}

// panickingFunc returns the function that panicked according to a stack taken inside the deferred
// function that recovered it: the first frame after the runtime's panic frames.
func panickingFunc(stack string) string {
	lines := strings.Split(stack, "\n")
	for i := 0; i+2 < len(lines); i++ {
		if strings.HasPrefix(lines[i], "panic(") {
			for j := i + 2; j < len(lines); j += 2 {
				f := lines[j]
				if strings.HasPrefix(f, "runtime.") || strings.HasPrefix(f, "panic(") {
					continue
				}
				if k := strings.LastIndex(f, "("); k > 0 {
					f = f[:k]
				}
				return f
			}
		}
	}
	return ""
}

// abstractState is a coarse hash of the world: shapes of live objects.
func (m *VM) abstractState() string {
	var sb strings.Builder
	for _, s := range m.Slots {
		switch o := s.(type) {
		case *TokObj:
			n := 0
			if o.B != nil {
				n = o.B.BlockCount()
			}
			fmt.Fprintf(&sb, "T%d%v%v,", n, o.Sealed, o.Hostile)
		case *BlobObj:
			fmt.Fprintf(&sb, "B%v,", o.Mutated)
		case *BBObj:
			fmt.Fprintf(&sb, "bb%d,", o.Builds)
		case *BlkObj:
			sb.WriteString("k,")
		case *BldObj:
			fmt.Fprintf(&sb, "bl%d,", o.Builds)
		case *AzObj:
			fmt.Fprintf(&sb, "A%v%d,", o.Evaluated, o.Rounds)
		case *KeyObj:
			sb.WriteString("K,")
		}
	}
	if len(m.Recs) > 0 {
		sb.WriteString(m.Recs[len(m.Recs)-1].Class)
	}
	return fmt.Sprintf("%x", fnv64(sb.String()))
}

func fnv64(s string) uint64 {
	h := uint64(14695981039346656037)
	for i := 0; i < len(s); i++ {
		h ^= uint64(s[i])
		h *= 1099511628211
	}
	return h
}

func (m *VM) step(i int, op *Op) *Rec {
	rec := &Rec{I: i, K: op.K, Out: op.Out}
	m.CurRand = nil
	var body func()
	skip := func(why string) { rec.Skipped = why }
	switch op.K {
	case "key":
		seed, _ := hex.DecodeString(op.Seed)
		if len(seed) != 32 {
			skip("bad seed")
			break
		}
		priv := ed25519.NewKeyFromSeed(seed)
		m.put(op.Out, &KeyObj{Pub: priv.Public().(ed25519.PublicKey), Priv: priv, Attacker: op.Has("attacker")})
		return rec
	case "keyrot":
		// the verifier rotates a registered public key IN PLACE (same slice, new bytes): whatever
		// was remembered about the old key must not survive
		k, o := m.Key(op.A), m.Key(op.B)
		if k == nil || o == nil {
			skip("no key")
			break
		}
		copy(k.Pub, o.Pub)
		k.Rotated = true
		m.FaultFired("key_rotated_in_place")
		return rec
	case "blob":
		b, _ := hex.DecodeString(op.Data)
		m.put(op.Out, &BlobObj{Data: b, Hostile: true, RootKey: op.A})
		return rec
	case "bld": // new builder
		k := m.Key(op.A)
		if k == nil || op.Ent == nil {
			skip("no key")
			break
		}
		body = func() {
			rnd := NewSimRand(op.Ent)
			rd := callerReader(rnd, op.Ent)
			var bld biscuit.Builder
			if len(op.Base) > 0 && op.RootID != nil {
				bld = biscuit.NewBuilder(k.Priv, symbolsOption(m, op.Base, biscuit.WithSymbols), biscuit.WithRNG(rd), biscuit.WithRootKeyID(*op.RootID))
			} else if len(op.Base) > 0 && i%2 == 0 {
				bld = biscuit.NewBuilder(k.Priv, symbolsOption(m, op.Base, biscuit.WithSymbols), biscuit.WithRNG(rd))
			} else if len(op.Base) > 0 {
				bld = biscuit.NewBuilder(k.Priv, biscuit.WithRNG(rd), symbolsOption(m, op.Base, biscuit.WithSymbols))
			} else if op.RootID != nil && i%2 == 0 { // options in either order
				bld = biscuit.NewBuilder(k.Priv, biscuit.WithRootKeyID(*op.RootID), biscuit.WithRNG(rd))
			} else if op.RootID != nil {
				bld = biscuit.NewBuilder(k.Priv, biscuit.WithRNG(rd), biscuit.WithRootKeyID(*op.RootID))
			} else if rd == nil && i%2 == 0 {
				bld = biscuit.NewBuilder(k.Priv)
			} else {
				bld = biscuit.NewBuilder(k.Priv, biscuit.WithRNG(rd))
			}
			m.put(op.Out, &BldObj{Bld: bld, Key: op.A, RootID: op.RootID, Rand: rnd, Default: op.Ent.Default, Base: op.Base})
		}
	case "bldadd":
		b := m.Bld(op.A)
		if b == nil || op.Blk == nil {
			skip("no builder")
			break
		}
		body = func() { rec.Err = errStr(m.addToBuilder(b, op.Blk)) }
	case "bldbuild":
		b := m.Bld(op.A)
		if b == nil {
			skip("no builder")
			break
		}
		body = func() {
			if op.Ent != nil { // fresh entropy for a repeated build
				*b.Rand = *NewSimRand(op.Ent)
			}
			m.CurRand = b.Rand
			b.Rand.Begin()
			if b.Default {
				defer useDefault(b.Rand)()
				m.Probe("default_entropy_source")
			}
			tok, err := b.Bld.Build()
			b.Builds++
			rec.Err = errStr(err)
			rec.setI("delivered", len(b.Rand.Delivered))
			rec.setS("delivered", hex.EncodeToString(b.Rand.Delivered))
			if b.Rand.Failed {
				rec.setI("entropy_failed", 1)
				m.FaultFired("entropy_failure")
			}
			if tok != nil {
				abs := &ref.Token{Blocks: []ref.Block{b.Content.Clone()}, RootID: op.RootID}
				if b.RootID != nil {
					v := *b.RootID
					abs.RootID = &v
				}
				m.put(op.Out, &TokObj{B: tok, Abs: abs, RootKey: b.Key, Created: i, SignEvents: []int{i}, Base: b.Base})
			}
			rec.Class = okClass(err)
		}
	case "build": // compound: builder + add + build, or biscuit.New
		k := m.Key(op.A)
		if k == nil || op.Blk == nil || op.Ent == nil {
			skip("no key")
			break
		}
		body = func() {
			rnd := NewSimRand(op.Ent)
			m.CurRand = rnd
			rd := callerReader(rnd, op.Ent)
			if rd == nil {
				defer useDefault(rnd)()
				m.Probe("default_entropy_source")
			}
			var tok *biscuit.Biscuit
			var err error
			tmp := &BldObj{}
			if op.Via == "new" {
				// biscuit.New(rng, root, baseSymbols, authority)
				bbo := &BBObj{BB: biscuit.NewBlockBuilder(&datalog.SymbolTable{})}
				if err = m.addToBB(bbo, op.Blk); err == nil {
					tmp.Content = bbo.Content
					tok, err = biscuit.New(rd, k.Priv, &datalog.SymbolTable{}, bbo.BB.Build())
				}
			} else {
				var bld biscuit.Builder
				switch {
				case len(op.Base) > 0 && op.RootID != nil && i%2 == 0: // options in another order
					bld = biscuit.NewBuilder(k.Priv, symbolsOption(m, op.Base, biscuit.WithSymbols), biscuit.WithRootKeyID(*op.RootID), biscuit.WithRNG(rd))
				case len(op.Base) > 0 && op.RootID != nil:
					bld = biscuit.NewBuilder(k.Priv, biscuit.WithRNG(rd), biscuit.WithRootKeyID(*op.RootID), symbolsOption(m, op.Base, biscuit.WithSymbols))
				case op.RootID != nil && i%2 == 0:
					bld = biscuit.NewBuilder(k.Priv, biscuit.WithRootKeyID(*op.RootID), biscuit.WithRNG(rd))
				case len(op.Base) > 0:
					bld = biscuit.NewBuilder(k.Priv, biscuit.WithRNG(rd), symbolsOption(m, op.Base, biscuit.WithSymbols))
				case op.RootID != nil:
					bld = biscuit.NewBuilder(k.Priv, biscuit.WithRNG(rd), biscuit.WithRootKeyID(*op.RootID))
				default:
					bld = biscuit.NewBuilder(k.Priv, biscuit.WithRNG(rd))
				}
				tmp.Bld = bld
				if err = m.addToBuilder(tmp, op.Blk); err == nil {
					tok, err = bld.Build()
				}
			}
			rec.Err = errStr(err)
			rec.Class = okClass(err)
			rec.setS("delivered", hex.EncodeToString(rnd.Delivered))
			if rnd.Failed {
				rec.setI("entropy_failed", 1)
				m.FaultFired("entropy_failure")
			}
			if tok != nil {
				abs := &ref.Token{Blocks: []ref.Block{tmp.Content.Clone()}}
				if op.RootID != nil && op.Via != "new" {
					v := *op.RootID
					abs.RootID = &v
				}
				m.put(op.Out, &TokObj{B: tok, Abs: abs, RootKey: op.A, Created: i, SignEvents: []int{i}, Base: op.Base})
			}
		}
	case "bb":
		t := m.Tok(op.A)
		if t == nil {
			skip("no token")
			break
		}
		body = func() { m.put(op.Out, &BBObj{BB: t.B.CreateBlock(), Parent: op.A}) }
	case "bbadd":
		b := m.BB(op.A)
		if b == nil || op.Blk == nil {
			skip("no block builder")
			break
		}
		body = func() { rec.Err = errStr(m.addToBB(b, op.Blk)) }
	case "bbbuild":
		b := m.BB(op.A)
		if b == nil {
			skip("no block builder")
			break
		}
		body = func() {
			blk := b.BB.Build()
			b.Builds++
			m.put(op.Out, &BlkObj{Blk: blk, Content: b.Content.Clone(), Parent: b.Parent})
		}
	case "append":
		t, k := m.Tok(op.A), m.Blk(op.B)
		if t == nil || k == nil || op.Ent == nil {
			skip("no token/block")
			break
		}
		body = func() {
			m.doAppend(rec, op, i, t, k.Blk, &k.Content)
			if k.Parent != op.A {
				// a block built for one token, appended to another: refused when their symbols overlap;
				// when it goes through, its symbol indexes mean something else there, so what the
				// resulting token says is not known to the harness (treated like foreign content)
				m.Probe("block_appended_to_a_token_it_was_not_built_for")
				if rec.Class == "overlap" {
					m.Probe("append_refused_symbol_overlap")
				}
				if nt := m.Tok(op.Out); nt != nil && nt.Created == i {
					nt.Hostile = true
				}
			}
		}
	case "attenuate": // compound: CreateBlock + add + Build + Append
		t := m.Tok(op.A)
		if t == nil || op.Blk == nil || op.Ent == nil {
			skip("no token")
			break
		}
		body = func() {
			bb := &BBObj{BB: t.B.CreateBlock(), Parent: op.A}
			if err := m.addToBB(bb, op.Blk); err != nil {
				rec.Err = errStr(err)
				rec.Class = "adderr"
				return
			}
			blk := bb.BB.Build()
			m.doAppend(rec, op, i, t, blk, &bb.Content)
		}
	case "seal":
		t := m.Tok(op.A)
		if t == nil {
			skip("no token")
			break
		}
		body = func() {
			var rnd *SimRand
			if op.Ent != nil {
				rnd = NewSimRand(op.Ent)
			} else {
				rnd = NewSimRand(&Entropy{Script: []ReadStep{{Kind: "err"}}})
			}
			nt, err := t.B.Seal(rnd)
			rec.Err = errStr(err)
			rec.Class = okClass(err)
			rec.setI("entropy_calls", rnd.Calls)
			if nt != nil {
				abs := t.Abs.Clone()
				if abs != nil {
					abs.Sealed = true
				}
				m.put(op.Out, &TokObj{B: nt, Abs: abs, Parent: op.A, RootKey: t.RootKey, Created: i, Hostile: t.Hostile, Sealed: true, SignEvents: append([]int(nil), t.SignEvents...), Base: t.Base})
			}
		}
	case "ser":
		t := m.Tok(op.A)
		if t == nil {
			skip("no token")
			break
		}
		body = func() {
			out, err := t.B.Serialize()
			rec.Err = errStr(err)
			rec.Class = okClass(err)
			if err == nil {
				// the bytes are the caller's: it puts a copy on the wire and re-uses the slice it was given
				b := append([]byte(nil), out...)
				for k := range out {
					out[k] = ^out[k]
				}
				m.put(op.Out, &BlobObj{Data: b, Abs: t.Abs.Clone(), RootKey: t.RootKey, FromTok: op.A, Hostile: t.Hostile, SignEvents: append([]int(nil), t.SignEvents...), Base: t.Base})
			}
		}
	case "unm":
		bl := m.Blob(op.A)
		if bl == nil {
			skip("no blob")
			break
		}
		body = func() {
			// the receive buffer belongs to the caller, who re-uses it as soon as Unmarshal has
			// returned: hand the library a private copy and overwrite it afterwards
			buf := append(make([]byte, 0, len(bl.Data)+16), bl.Data...)
			var tok *biscuit.Biscuit
			var err error
			if len(bl.Base) > 0 {
				// a receiver keeps ONE Unmarshaler (and one table) per agreed base for all the tokens
				// it decodes; the table is the caller's and must come back unchanged
				key := "unmarshaler:" + strings.Join(bl.Base, "\x00")
				u, _ := m.Ext[key].(*biscuit.Unmarshaler)
				if u == nil {
					st := datalog.SymbolTable(append([]string{}, bl.Base...))
					u = &biscuit.Unmarshaler{Symbols: &st}
					m.Ext[key] = u
				} else {
					m.Probe("unmarshaler_reused")
				}
				tok, err = u.Unmarshal(buf)
				if got := []string(*u.Symbols); strings.Join(got, "\x00") != strings.Join(bl.Base, "\x00") {
					m.Violate(m.Plan.Property, "caller-symbol-table-modified", "Unmarshal changed the symbol table of the caller's Unmarshaler",
						fmt.Sprintf("base %q became %q", bl.Base, got))
					st := datalog.SymbolTable(append([]string{}, bl.Base...))
					u.Symbols = &st
				}
			} else {
				tok, err = biscuit.Unmarshal(buf)
			}
			for i := range buf {
				buf[i] = ^buf[i]
			}
			buf = append(buf[:0], "reused receive buffer"...)
			_ = buf
			rec.Err = errStr(err)
			rec.Class = okClass(err)
			if tok != nil && err == nil {
				m.put(op.Out, &TokObj{B: tok, Abs: bl.Abs.Clone(), RootKey: bl.RootKey, FromBlob: op.A, Created: i, Hostile: bl.Hostile || bl.Mutated, Sealed: bl.Abs != nil && bl.Abs.Sealed, SignEvents: append([]int(nil), bl.SignEvents...), Base: bl.Base})
			}
		}
	case "mut":
		bl := m.Blob(op.A)
		if bl == nil {
			skip("no blob")
			break
		}
		nb := &BlobObj{Data: append([]byte(nil), bl.Data...), RootKey: bl.RootKey, FromTok: bl.FromTok, Mutated: true, Hostile: bl.Hostile, Muts: append([]string(nil), bl.Muts...), Base: bl.Base}
		for _, mu := range op.Muts {
			var donor []byte
			if d := m.Blob(op.B); d != nil {
				donor = d.Data
			}
			out, ok := m.applyMut(nb.Data, donor, mu)
			if ok {
				nb.Data = out
				kind := mu.Kind
				if kind == "version" {
					kind = fmt.Sprintf("version:%d", mu.Val)
				}
				nb.Muts = append(nb.Muts, kind)
				m.FaultFired("mut:" + mu.Kind)
			}
		}
		m.put(op.Out, nb)
		return rec
	case "print":
		t := m.Tok(op.A)
		if t == nil {
			skip("no token")
			break
		}
		body = func() {
			rec.setS("string", t.B.String())
			rec.setS("code", strings.Join(t.B.Code(), "\n"))
			rec.setI("revids", len(t.B.RevocationIds()))
			_ = t.B.Checks()
		}
	case "blockid":
		t := m.Tok(op.A)
		if t == nil || op.F == nil {
			skip("no token")
			break
		}
		body = func() {
			id, err := t.B.GetBlockID(lower.Fact(*op.F))
			rec.Err = errStr(err)
			rec.setI("id", id)
			rec.Class = okClass(err)
			// what a token answers is a function of what its own callers put into it: the first block
			// (0 = authority) that states the fact, or "not found"
			if t.Abs != nil && !t.Hostile {
				want := -1
				for bi, blk := range t.Abs.Blocks {
					for _, f := range blk.Facts {
						if want < 0 && f.Canon() == op.F.Canon() {
							want = bi
						}
					}
				}
				m.Probe("blockid_answer_checked")
				if (want < 0) != (err != nil) || (want >= 0 && err == nil && id != want) {
					m.Violate("C08", "fact-lookup-differs-from-content", "GetBlockID does not answer from the token's own content", fmt.Sprintf("op %d: fact %s: library says (%d, %v), the token's callers put it into block %d (-1 = nowhere)", i, op.F.Canon(), id, err, want))
				}
			}
		}
	case "verify":
		t := m.Tok(op.A)
		if t == nil || op.KS == nil {
			skip("no token")
			break
		}
		body = func() { m.doVerify(rec, op, t) }
	case "az":
		t := m.Tok(op.A)
		if t == nil || op.KS == nil {
			skip("no token")
			break
		}
		body = func() {
			a, err, ok := m.newAuthorizer(t, op.KS, op.Lim, op.Via)
			if !ok {
				rec.Skipped = "no key"
				return
			}
			rec.Err = errStr(err)
			rec.Class = azErrClass(err)
			if err == nil && a != nil {
				ks, lim, via := op.KS, op.Lim, op.Via
				m.put(op.Out, &AzObj{Az: a, Tok: op.A, Lim: op.Lim, Scratch: func() biscuit.Authorizer {
					return m.scratchAuthorizer(t, ks, lim, via)
				}})
			}
		}
	case "azadd":
		a := m.AzO(op.A)
		if a == nil || op.Az == nil {
			skip("no authorizer")
			break
		}
		body = func() {
			loaded := false
			// content may arrive as a stored policy file only while the authorizer holds nothing yet
			// (LoadPolicies replaces checks and policies and restarts the symbol table)
			clean := !a.Evaluated && !a.Unknown && len(a.Content.Facts)+len(a.Content.Rules)+len(a.Content.Checks)+len(a.Content.Policies) == 0
			if op.Has("via-load") && clean && a.Scratch != nil {
				if s := a.Scratch(); s != nil {
					loaded = m.addViaLoad(s, a.Az, op.Az, op.Perm, op.Has("permute-checks"))
				}
			}
			if !loaded {
				addAuthz(a.Az, op.Az, op.Perm, op.Has("permute-checks"))
			}
			a.Content.Facts = append(a.Content.Facts, op.Az.Facts...)
			a.Content.Rules = append(a.Content.Rules, op.Az.Rules...)
			a.Content.Checks = append(a.Content.Checks, op.Az.Checks...)
			a.Content.Policies = append(a.Content.Policies, op.Az.Policies...)
		}
	case "azauth":
		a := m.AzO(op.A)
		if a == nil {
			skip("no authorizer")
			break
		}
		body = func() {
			v := &VerifyRec{Tok: a.Tok, Lim: a.Lim, Via: "reused"}
			if !a.Unknown {
				c := a.Content
				v.Az = &c
			}
			if op.Has("query-before") {
				// the verifier looks at what it configured for this round before it authorizes
				m.Probe("query_before_authorize")
				for _, q := range op.Qs {
					queryRec(a.Az, q)
				}
				if len(op.Qs) == 0 {
					queryRec(a.Az, ref.Rule{Head: ref.Pred{Name: "inspect", Terms: []ref.Term{ref.Var("x")}}, Body: []ref.Pred{{Name: "inspect_nothing", Terms: []ref.Term{ref.Var("x")}}}})
				}
			}
			v.SimStart = int64(time.Now().UnixNano())
			err := a.Az.Authorize()
			v.SimEnd = int64(time.Now().UnixNano())
			a.Evaluated = true
			v.Class, v.ErrText, v.Failed = ClassifyAuthz(err), errStr(err), failedChecks(err)
			if !strings.HasPrefix(v.Class, "limit") {
				for _, q := range op.Qs {
					v.Queries = append(v.Queries, queryRec(a.Az, q))
				}
				v.World = worldFacts(a.Az.PrintWorld())
			}
			rec.V, rec.Class, rec.Err = v, v.Class, v.ErrText
		}
	case "azquery":
		a := m.AzO(op.A)
		if a == nil {
			skip("no authorizer")
			break
		}
		body = func() {
			v := &VerifyRec{Tok: a.Tok, Lim: a.Lim}
			c := a.Content
			v.Az = &c
			for _, q := range op.Qs {
				v.Queries = append(v.Queries, queryRec(a.Az, q))
			}
			a.Evaluated = true
			v.Class, rec.Class = "queried", "queried"
			rec.V = v
		}
	case "azreset":
		a := m.AzO(op.A)
		if a == nil {
			skip("no authorizer")
			break
		}
		body = func() {
			a.Az.Reset()
			a.Content = ref.Authz{}
			a.Unknown = false
			a.Evaluated = false
			a.Rounds++
		}
	case "azsave":
		a := m.AzO(op.A)
		if a == nil {
			skip("no authorizer")
			break
		}
		body = func() {
			b, err := a.Az.SerializePolicies()
			rec.Err = errStr(err)
			rec.Class = okClass(err)
			rec.setI("evaluated", b2i(a.Evaluated))
			if err == nil {
				// the caller keeps the very slice it was handed; what it holds is compared at the end
				// of the run with what it held when it was handed out
				m.put(op.Out, &BlobObj{Data: b})
				c := a.Content
				m.Ext["snap:"+string(b)] = &c
				held, _ := m.Ext["snapshots-held"].([][2][]byte)
				m.Ext["snapshots-held"] = append(held, [2][]byte{b, append([]byte(nil), b...)})
				for _, hs := range held {
					if !bytes.Equal(hs[0], hs[1]) {
						m.Violate("C18", "snapshot-bytes-changed", "a snapshot handed out earlier changed when a later one was taken", fmt.Sprintf("op %d: %d bytes handed out earlier no longer read as they did", i, len(hs[1])))
						copy(hs[0], hs[1])
					}
				}
			}
		}
	case "azload":
		a, bl := m.AzO(op.A), m.Blob(op.B)
		if a == nil || bl == nil {
			skip("no authorizer/blob")
			break
		}
		body = func() {
			err := m.loadPolicies(a.Az, bl.Data)
			rec.Err = errStr(err)
			rec.Class = okClass(err)
			rec.setI("mutated", b2i(bl.Mutated))
			if c, ok := m.Ext["snap:"+string(bl.Data)].(*ref.Authz); ok && err == nil {
				// the bytes are exactly a snapshot taken earlier: the loaded content is known
				a.Content = *c
				rec.setI("clean_snapshot", 1)
			} else {
				a.Content = ref.Authz{}
				a.Unknown = true
			}
		}
	case "dwrite":
		bl := m.Blob(op.A)
		if bl == nil {
			skip("no blob")
			break
		}
		fired := m.Disk.Write(op.Name, bl.Data, op.Via, op.N)
		if fired != "" {
			m.FaultFired("disk:" + fired)
		}
		return rec
	case "dsync":
		m.Disk.Sync(op.Name)
		return rec
	case "dcrash":
		m.Disk.Crash()
		m.FaultFired("crash_restart")
		// a crash loses every in-memory authorizer of the verifier
		for si, s := range m.Slots {
			if _, ok := s.(*AzObj); ok {
				m.Slots[si] = nil
			}
		}
		return rec
	case "dread":
		data, ok := m.Disk.Read(op.Name)
		if !ok {
			skip("no such file")
			break
		}
		m.put(op.Out, &BlobObj{Data: data, Mutated: m.Disk.Dirty(op.Name)})
		return rec
	case "dl":
		if op.Blk == nil {
			skip("no program")
			break
		}
		body = func() { m.doDatalog(rec, op) }
	default:
		skip("unknown op " + op.K)
	}
	if body == nil {
		return rec
	}
	rec.Call = m.Sim.Call(body)
	rec.Panic = rec.Call.Panic
	return rec
}

func b2i(b bool) int {
	if b {
		return 1
	}
	return 0
}

func errStr(err error) string {
	if err == nil {
		return ""
	}
	return short(err.Error())
}

func okClass(err error) string {
	if err == nil {
		return "ok"
	}
	return "err"
}

// bulkOK: the block can go through the bulk entry point AddBlock(ParsedBlock), which stops at the
// first duplicate fact where the one-by-one route skips it: no fact equal to an earlier one, no
// set-valued term (set equality is not syntactic). The choice is a function of the content.
func bulkOK(existing []ref.Pred, blk *ref.Block) bool {
	if (len(blk.Facts)+2*len(blk.Rules)+len(blk.Checks))%3 != 1 {
		return false
	}
	seen := map[string]bool{}
	for _, f := range existing {
		seen[f.Canon()] = true
	}
	for _, f := range blk.Facts {
		for _, t := range f.Terms {
			if t.K == ref.KSet {
				return false
			}
		}
		c := f.Canon()
		if seen[c] {
			return false
		}
		seen[c] = true
	}
	return true
}

func parsedBlock(blk *ref.Block) biscuit.ParsedBlock {
	pb := biscuit.ParsedBlock{}
	for _, f := range blk.Facts {
		pb.Facts = append(pb.Facts, lower.Fact(f))
	}
	for _, r := range blk.Rules {
		pb.Rules = append(pb.Rules, lower.Rule(r))
	}
	for _, c := range blk.Checks {
		pb.Checks = append(pb.Checks, lower.Check(c))
	}
	return pb
}

func (m *VM) addToBuilder(b *BldObj, blk *ref.Block) error {
	if bulkOK(b.Content.Facts, blk) {
		m.Probe("bulk_add_block")
		if err := b.Bld.AddBlock(parsedBlock(blk)); err != nil {
			return err
		}
		b.Content.Facts = append(b.Content.Facts, blk.Facts...)
		b.Content.Rules = append(b.Content.Rules, blk.Rules...)
		b.Content.Checks = append(b.Content.Checks, blk.Checks...)
		if blk.Context != "" {
			b.Bld.SetContext(blk.Context)
			b.Content.Context = blk.Context
		}
		return nil
	}
	for _, f := range blk.Facts {
		if err := b.Bld.AddAuthorityFact(lower.Fact(f)); err != nil {
			if errors.Is(err, biscuit.ErrDuplicateFact) {
				continue
			}
			return err
		}
		b.Content.Facts = append(b.Content.Facts, f)
	}
	for _, r := range blk.Rules {
		if err := b.Bld.AddAuthorityRule(lower.Rule(r)); err != nil {
			return err
		}
		b.Content.Rules = append(b.Content.Rules, r)
	}
	for _, c := range blk.Checks {
		if err := b.Bld.AddAuthorityCheck(lower.Check(c)); err != nil {
			return err
		}
		b.Content.Checks = append(b.Content.Checks, c)
	}
	if blk.Context != "" {
		b.Bld.SetContext(blk.Context)
		b.Content.Context = blk.Context
	}
	return nil
}

func (m *VM) addToBB(b *BBObj, blk *ref.Block) error {
	if bulkOK(b.Content.Facts, blk) {
		m.Probe("bulk_add_block")
		if err := b.BB.AddBlock(parsedBlock(blk)); err != nil {
			return err
		}
		b.Content.Facts = append(b.Content.Facts, blk.Facts...)
		b.Content.Rules = append(b.Content.Rules, blk.Rules...)
		b.Content.Checks = append(b.Content.Checks, blk.Checks...)
		if blk.Context != "" {
			b.BB.SetContext(blk.Context)
			b.Content.Context = blk.Context
		}
		return nil
	}
	for _, f := range blk.Facts {
		if err := b.BB.AddFact(lower.Fact(f)); err != nil {
			if errors.Is(err, biscuit.ErrDuplicateFact) {
				continue
			}
			return err
		}
		b.Content.Facts = append(b.Content.Facts, f)
	}
	for _, r := range blk.Rules {
		if err := b.BB.AddRule(lower.Rule(r)); err != nil {
			return err
		}
		b.Content.Rules = append(b.Content.Rules, r)
	}
	for _, c := range blk.Checks {
		if err := b.BB.AddCheck(lower.Check(c)); err != nil {
			return err
		}
		b.Content.Checks = append(b.Content.Checks, c)
	}
	if blk.Context != "" {
		b.BB.SetContext(blk.Context)
		b.Content.Context = blk.Context
	}
	return nil
}

// callerReader is the entropy source the simulated caller hands to the library: the simulated
// source itself, or nothing at all (nil) when the plan says the caller relies on the default.
func callerReader(rnd *SimRand, e *Entropy) io.Reader {
	if e != nil && e.Default {
		return nil
	}
	// callers hand over sources of every dynamic type an io.Reader can have: a pointer, a function
	// type with a Read method, a struct value (here one that holds a slice, so it is neither nillable
	// nor comparable); which one is a function of the plan's entropy bytes
	if e != nil && len(e.Bytes) >= 2 {
		switch e.Bytes[1] {
		case '1', '5', '9', 'd':
			return readerFunc(rnd.Read)
		case '2', '6', 'a', 'e':
			return readerValue{r: rnd, pad: []byte{1}}
		}
	}
	return rnd
}

// symbolsOption: an issuer makes its WithSymbols option once per agreed base table and passes the
// same option value to every builder it creates (the table behind it stays the issuer's).
func symbolsOption[T any](m *VM, base []string, mk func(*datalog.SymbolTable) T) T {
	key := "symbols-option:" + strings.Join(base, "\x00")
	if o, ok := m.Ext[key].(T); ok {
		m.Probe("symbols_option_reused")
		return o
	}
	st := datalog.SymbolTable(append([]string{}, base...))
	o := mk(&st)
	m.Ext[key] = o
	return o
}

type readerFunc func([]byte) (int, error)

func (f readerFunc) Read(p []byte) (int, error) { return f(p) }

type readerValue struct {
	r   *SimRand
	pad []byte
}

func (v readerValue) Read(p []byte) (int, error) { return v.r.Read(p) }

// useDefault installs r as the process-wide default entropy source (crypto/rand.Reader; both
// binaries are built with cryptocustomrand=1, so a nil reader handed to crypto/ed25519 reads it
// too) and returns the function that puts the previous one back.
func useDefault(r io.Reader) func() {
	old := crand.Reader
	crand.Reader = r
	return func() { crand.Reader = old }
}

func (m *VM) doAppend(rec *Rec, op *Op, i int, t *TokObj, blk *biscuit.Block, content *ref.Block) {
	rnd := NewSimRand(op.Ent)
	m.CurRand = rnd
	rd := callerReader(rnd, op.Ent)
	if rd == nil {
		defer useDefault(rnd)()
		m.Probe("default_entropy_source")
	}
	nt, err := t.B.Append(rd, blk)
	rec.Err = errStr(err)
	rec.Class = okClass(err)
	if errors.Is(err, biscuit.ErrSymbolTableOverlap) {
		rec.Class = "overlap"
	}
	rec.setS("delivered", hex.EncodeToString(rnd.Delivered))
	if rnd.Failed {
		rec.setI("entropy_failed", 1)
		m.FaultFired("entropy_failure")
	}
	if nt != nil {
		abs := t.Abs.Clone()
		if abs != nil {
			abs.Blocks = append(abs.Blocks, content.Clone())
		}
		m.put(op.Out, &TokObj{B: nt, Abs: abs, Parent: op.A, RootKey: t.RootKey, Created: i, Hostile: t.Hostile, SignEvents: append(append([]int(nil), t.SignEvents...), i), Base: t.Base})
	}
}

func (m *VM) doVerify(rec *Rec, op *Op, t *TokObj) {
	v := &VerifyRec{Tok: op.A, Az: op.Az, Lim: op.Lim, Via: op.Via}
	rec.V = v
	a, err, ok := m.newAuthorizer(t, op.KS, op.Lim, op.Via)
	if !ok {
		rec.Skipped = "no key"
		return
	}
	v.AzErr, v.AzErrText = azErrClass(err), errStr(err)
	if err != nil {
		if a != nil {
			v.AzErr += "+authorizer"
		}
		rec.Class = "rejected:" + v.AzErr
		return
	}
	loaded := false
	if op.Has("via-load") && op.Az != nil {
		if s := m.scratchAuthorizer(t, op.KS, op.Lim, op.Via); s != nil {
			loaded = m.addViaLoad(s, a, op.Az, op.Perm, op.Has("permute-checks"))
		}
	}
	if !loaded {
		addAuthz(a, op.Az, op.Perm, op.Has("permute-checks"))
	}
	if op.Has("query-before") {
		// the verifier looks at its own configuration before it authorizes
		m.Probe("query_before_authorize")
		for _, q := range op.Qs {
			queryRec(a, q)
		}
		if len(op.Qs) == 0 {
			queryRec(a, ref.Rule{Head: ref.Pred{Name: "inspect", Terms: []ref.Term{ref.Var("x")}}, Body: []ref.Pred{{Name: "inspect_nothing", Terms: []ref.Term{ref.Var("x")}}}})
		}
	}
	if op.Has("noauth") {
		for _, q := range op.Qs {
			v.Queries = append(v.Queries, queryRec(a, q))
		}
		v.Class, rec.Class = "queried", "queried"
		return
	}
	v.SimStart = time.Now().UnixNano()
	err = a.Authorize()
	v.SimEnd = time.Now().UnixNano()
	v.Class, v.ErrText, v.Failed = ClassifyAuthz(err), errStr(err), failedChecks(err)
	rec.Class, rec.Err = v.Class, v.ErrText
	if !strings.HasPrefix(v.Class, "limit") || op.Has("query-after-limit") {
		for _, q := range op.Qs {
			v.Queries = append(v.Queries, queryRec(a, q))
		}
		v.World = worldFacts(a.PrintWorld())
	}
	if op.N > 0 { // repeat Authorize on the same authorizer
		for k := 0; k < op.N; k++ {
			v.Second = ClassifyAuthz(a.Authorize())
		}
	}
}

func (m *VM) doDatalog(rec *Rec, op *Op) {
	syms := &datalog.SymbolTable{}
	d := lower.DL{Syms: syms}
	w := datalog.NewWorld(m.worldOpts(op.Lim)...)
	facts := op.Blk.Facts
	if len(op.Perm) == len(facts) {
		nf := make([]ref.Pred, len(facts))
		for i, p := range op.Perm {
			nf[i] = facts[p]
		}
		facts = nf
	}
	// variants over the rest of World's API; in each of them the world that is finally evaluated holds
	// exactly the program's facts and rules, so the same least model is expected
	late := 0
	if op.Has("incremental") {
		late = len(facts) / 2
	}
	for _, f := range facts[:len(facts)-late] {
		w.AddFact(datalog.Fact{Predicate: d.Pred(f)})
	}
	if op.Has("resetrules") { // rules that are withdrawn before evaluation must leave no trace
		for _, q := range op.Qs {
			w.AddRule(d.Rule(q))
		}
		w.ResetRules()
	}
	for _, r := range op.Blk.Rules {
		w.AddRule(d.Rule(r))
	}
	if op.Has("clone") { // evaluate a clone; the original must stay as it was
		orig := w
		w = orig.Clone()
		defer func() {
			if n := len(*orig.Facts()); n != len(facts)-late {
				m.Violate(m.Plan.Property, "cloned-world-changed", "evaluating a clone changed the world it was cloned from", fmt.Sprintf("%d facts before, %d after", len(facts)-late, n))
				return
			}
			// ... and is itself still a world like any other: evaluated now (same facts when nothing
			// was added late), it reaches what its clone reached
			if rec.Class == "ok" && late == 0 {
				if e := orig.Run(syms); e == nil {
					if got := strings.Join(d.BackFacts(orig.Facts()).Keys(), "\n"); got != rec.Strs["facts"] {
						m.Violate(m.Plan.Property, "clone-and-original-disagree", "a world evaluated after its clone was evaluated ends with other facts than the clone", fmt.Sprintf("clone: %s\noriginal: %s", oneLine(rec.Strs["facts"]), oneLine(got)))
					}
				}
			}
		}()
	}
	if op.Has("rerun") || late > 0 { // an earlier evaluation (of a part) of the same world
		_ = w.Run(syms)
		for _, f := range facts[len(facts)-late:] {
			w.AddFact(datalog.Fact{Predicate: d.Pred(f)})
		}
	}
	start := time.Now()
	step0 := m.Sim.Step
	err := w.Run(syms)
	rec.setI("elapsed_ns", int(time.Since(start)))
	// how many scheduling steps the evaluation's goroutines were given after a clock stall had
	// carried this very call past its deadline, before the call returned
	if lim := op.Lim; lim != nil && lim.MaxDurNs > 0 && m.Sim.LastStallStep > step0 && m.Sim.LastStallEnd.Sub(start) >= time.Duration(lim.MaxDurNs) {
		rec.setI("steps_past_deadline", m.Sim.Step-m.Sim.LastStallStep)
		rec.setI("past_deadline", 1)
	}
	rec.Err = errStr(err)
	rec.Class = ClassifyAuthz(err)
	if err == nil {
		rec.Class = "ok"
	}
	var ie datalog.InvalidRuleError
	if errors.As(err, &ie) {
		rec.Class = "invalidrule"
	}
	got := d.BackFacts(w.Facts())
	rec.setS("facts", strings.Join(got.Keys(), "\n"))
	rec.setI("nfacts", len(got))
	if err == nil {
		for qi, q := range op.Qs {
			res := w.QueryRule(d.Rule(q), syms)
			rec.setS(fmt.Sprintf("q%d", qi), strings.Join(d.BackFacts(res).Keys(), "\n"))
		}
	}
}

var _ = sched.Fault{}

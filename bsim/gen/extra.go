package gen

import (
	"fmt"

	"bsim/ref"
)

// QueryFrom builds a query that the given facts satisfy: one or two of the
// facts with some terms generalised to variables (consistently).
func (g *G) QueryFrom(facts []ref.Pred) ref.Rule {
	if len(facts) == 0 {
		return g.Query(false)
	}
	n := 1
	if len(facts) > 1 && g.R.Intn(3) == 0 {
		n = 2
	}
	byVal := map[string]string{}
	nv := 0
	q := ref.Rule{Head: ref.Pred{Name: "query"}}
	for i := 0; i < n; i++ {
		f := facts[g.R.Intn(len(facts))]
		p := ref.Pred{Name: f.Name}
		for _, t := range f.Terms {
			if g.R.Intn(2) == 0 {
				k := t.Canon()
				v, ok := byVal[k]
				if !ok {
					v = g.VarNames[nv%len(g.VarNames)]
					if nv >= len(g.VarNames) {
						v = fmt.Sprintf("%s%d", v, nv)
					}
					nv++
					byVal[k] = v
				}
				p.Terms = append(p.Terms, ref.Var(v))
			} else {
				p.Terms = append(p.Terms, t)
			}
		}
		q.Body = append(q.Body, p)
	}
	return q
}

// instantiate replaces the variables of a body atom by constants of the right
// kind (taken from the signature when the predicate is known).
func (g *G) instantiate(p ref.Pred) ref.Pred {
	out := ref.Pred{Name: p.Name}
	var sig *Sig
	for i := range g.Sigs {
		if g.Sigs[i].Name == p.Name && len(g.Sigs[i].Kinds) == len(p.Terms) {
			sig = &g.Sigs[i]
		}
	}
	for i, t := range p.Terms {
		if t.K != ref.KVar {
			out.Terms = append(out.Terms, t)
			continue
		}
		kind := ref.KInt
		if sig != nil {
			kind = sig.Kinds[i]
		}
		out.Terms = append(out.Terms, g.Const(kind))
	}
	return out
}

// Hostile builds a block aimed at the given queries (policies and checks of
// the authorizer and of other blocks): facts that instantiate their body atoms,
// rules that derive their predicates from anything, copies of known facts.
// With checks=false the block is check-free.
func (g *G) Hostile(targets []ref.Rule, known []ref.Pred, checks bool) ref.Block {
	var b ref.Block
	seen := map[string]bool{}
	addFact := func(f ref.Pred) {
		if f.Ground() && !seen[f.Canon()] {
			seen[f.Canon()] = true
			b.Facts = append(b.Facts, f)
		}
	}
	for _, q := range targets {
		for _, a := range q.Body {
			if g.R.Intn(3) != 0 {
				addFact(g.instantiate(a))
			}
			if g.R.Intn(3) == 0 {
				// derive the predicate from any known fact
				if len(known) > 0 {
					k := known[g.R.Intn(len(known))]
					body := ref.Pred{Name: k.Name}
					for i := range k.Terms {
						body.Terms = append(body.Terms, ref.Var(fmt.Sprintf("h%d", i)))
					}
					b.Rules = append(b.Rules, ref.Rule{Head: g.instantiate(a), Body: []ref.Pred{body}})
				} else {
					b.Rules = append(b.Rules, ref.Rule{Head: g.instantiate(a), Exprs: []ref.Expr{ref.Leaf(ref.Bool(true))}})
				}
			}
		}
	}
	for _, k := range known {
		if g.R.Intn(4) == 0 {
			addFact(k)
		}
	}
	for i := g.R.Intn(3); i > 0; i-- {
		addFact(g.Fact())
	}
	if g.R.Intn(3) == 0 {
		b.Rules = append(b.Rules, g.Rule())
	}
	if checks {
		if len(targets) > 0 && g.R.Intn(3) == 0 {
			// the very query of a policy or of somebody else's check, as a check of this block (which its
			// own facts may well satisfy): what holds here says nothing about the same text elsewhere
			b.Checks = append(b.Checks, ref.Check{Queries: []ref.Rule{targets[g.R.Intn(len(targets))]}})
		}
		for i := g.R.Intn(3); i > 0; i-- {
			if g.R.Intn(2) == 0 {
				b.Checks = append(b.Checks, ref.Check{Queries: []ref.Rule{g.QueryFrom(append(known, b.Facts...))}})
			} else {
				b.Checks = append(b.Checks, g.Check(0))
			}
		}
	}
	if len(b.Facts) > 10 {
		b.Facts = b.Facts[:10]
	}
	if len(b.Rules) > 4 {
		b.Rules = b.Rules[:4]
	}
	return b
}

// failingQuery builds a query over a fact of the pool whose expression is ill-typed for every
// match: 1 == $v + 1 with $v bound to a string, date, byte array or boolean.
func (g *G) failingQuery(pool []ref.Pred) (ref.Rule, bool) {
	for _, pi := range g.R.Perm(len(pool)) {
		f := pool[pi]
		for j, t := range f.Terms {
			if t.K != ref.KStr && t.K != ref.KDate && t.K != ref.KBytes && t.K != ref.KBool {
				continue
			}
			body := ref.Pred{Name: f.Name}
			for i := range f.Terms {
				body.Terms = append(body.Terms, ref.Var(fmt.Sprintf("f%d", i)))
			}
			e := ref.Bin("==", ref.Leaf(ref.Int(1)), ref.Bin("+", ref.Leaf(ref.Var(fmt.Sprintf("f%d", j))), ref.Leaf(ref.Int(1))))
			return ref.Rule{Head: ref.Pred{Name: "query"}, Body: []ref.Pred{body}, Exprs: []ref.Expr{e}}, true
		}
	}
	return ref.Rule{}, false
}

// AuthzFor builds authorizer content whose checks and policies have a fair
// chance of being satisfied by the given facts.
func (g *G) AuthzFor(known []ref.Pred, maxFacts, maxRules, maxChecks, maxPolicies int) ref.Authz {
	a := ref.Authz{}
	a.Facts = g.Facts(g.R.Intn(maxFacts + 1))
	pool := append(append([]ref.Pred{}, known...), a.Facts...)
	for i := g.R.Intn(maxRules + 1); i > 0; i-- {
		a.Rules = append(a.Rules, g.Rule())
	}
	for i := g.R.Intn(maxChecks + 1); i > 0; i-- {
		if g.R.Intn(3) != 0 {
			a.Checks = append(a.Checks, ref.Check{Queries: []ref.Rule{g.QueryFrom(pool)}})
		} else {
			a.Checks = append(a.Checks, g.Check(8))
		}
	}
	if maxChecks >= 2 && g.R.Intn(5) == 0 {
		a.Checks = append(a.Checks, g.NearDuplicateChecks(pool)...)
	}
	if maxRules >= 2 && g.R.Intn(6) == 0 {
		if nr := g.NearDuplicateRules(pool); len(nr) == 2 {
			a.Rules = append(a.Rules, nr...)
			// what they derive decides a check and a policy, so that losing one of the twins shows
			h := nr[0].Head
			if g.R.Intn(2) == 0 {
				a.Checks = append(a.Checks, ref.Check{Queries: []ref.Rule{{Head: ref.Pred{Name: "query"}, Body: []ref.Pred{h, {Name: h.Name, Terms: []ref.Term{ref.Var("other")}}}, Exprs: []ref.Expr{ref.Un("!", ref.Un("()", ref.Bin("==", ref.Leaf(ref.Var("nr")), ref.Leaf(ref.Var("other")))))}}}})
			} else {
				a.Policies = append([]ref.Policy{{Allow: g.R.Intn(2) == 0, Queries: []ref.Rule{{Head: ref.Pred{Name: "query"}, Body: []ref.Pred{h}}}}}, a.Policies...)
			}
		}
	}
	if maxRules >= 1 && g.R.Intn(6) == 0 {
		// a rule without body atoms (a constant switch: ground head, expressions only); a policy or a
		// check asks for what it derives
		h := g.Fact()
		h.Name = "switch_" + h.Name
		a.Rules = append(a.Rules, ref.Rule{Head: h, Exprs: []ref.Expr{ref.Bin(">", ref.Leaf(ref.Int(2)), ref.Leaf(ref.Int(1)))}})
		if g.R.Intn(2) == 0 {
			a.Checks = append(a.Checks, ref.Check{Queries: []ref.Rule{{Head: ref.Pred{Name: "query"}, Body: []ref.Pred{h}}}})
		} else {
			a.Policies = append(a.Policies, ref.Policy{Allow: g.R.Intn(2) == 0, Queries: []ref.Rule{{Head: ref.Pred{Name: "query"}, Body: []ref.Pred{h}}}})
		}
	}
	if g.R.Intn(6) == 0 {
		// a query that fails uniformly (ill-typed arithmetic on every match, with an operand still
		// pending when it fails), evaluated just before sound ones: as the first policy, or as the first
		// alternative of the first check
		if q, ok := g.failingQuery(pool); ok {
			if len(a.Checks) > 0 && g.R.Intn(2) == 0 {
				a.Checks[0].Queries = append([]ref.Rule{q}, a.Checks[0].Queries...)
			} else {
				a.Policies = append(a.Policies, ref.Policy{Allow: g.R.Intn(2) == 0, Queries: []ref.Rule{q}})
			}
		}
	}
	for i := g.R.Intn(maxPolicies + 1); i > 0; i-- {
		if g.R.Intn(2) == 0 {
			a.Policies = append(a.Policies, ref.Policy{Allow: g.R.Intn(3) != 0, Queries: []ref.Rule{g.QueryFrom(pool)}})
		} else {
			a.Policies = append(a.Policies, g.Policy(8))
		}
	}
	if g.R.Intn(2) == 0 {
		a.Policies = append(a.Policies, ref.Policy{Allow: g.R.Intn(4) != 0, Queries: []ref.Rule{TrueQuery()}})
	}
	return a
}

// BlockFor is Block with checks biased to be satisfiable by the known facts.
func (g *G) BlockFor(known []ref.Pred, maxFacts, maxRules, maxChecks int) ref.Block {
	b := g.Block(maxFacts, maxRules, 0)
	pool := append(append([]ref.Pred{}, known...), b.Facts...)
	for i := g.R.Intn(maxChecks + 1); i > 0; i-- {
		if g.R.Intn(3) != 0 {
			b.Checks = append(b.Checks, ref.Check{Queries: []ref.Rule{g.QueryFrom(pool)}})
		} else {
			b.Checks = append(b.Checks, g.Check(0))
		}
	}
	return b
}

// NearDuplicateChecks returns two checks with the same body and the same number
// of expressions but different expressions (e.g. "not after" / "not before" on
// one fact), which anything that identifies checks by their shape would confuse.
func (g *G) NearDuplicateChecks(facts []ref.Pred) []ref.Check {
	for _, i := range g.R.Perm(len(facts)) {
		f := facts[i]
		for j, t := range f.Terms {
			var e1, e2 ref.Expr
			v := ref.Leaf(ref.Var("nd"))
			switch t.K {
			case ref.KInt:
				e1 = ref.Bin("<=", v, ref.Leaf(ref.Int(t.I+int64(g.R.Intn(2)))))
				e2 = ref.Bin(">=", v, ref.Leaf(ref.Int(t.I+int64(g.R.Intn(3)))))
			case ref.KDate:
				e1 = ref.Bin("<=", v, ref.Leaf(ref.Date(t.D+uint64(g.R.Intn(2)))))
				e2 = ref.Bin(">", v, ref.Leaf(ref.Date(t.D)))
			case ref.KStr:
				e1 = ref.Bin("==", v, ref.Leaf(t))
				e2 = ref.Bin("prefix", v, ref.Leaf(ref.Str(t.S+"x")))
			default:
				continue
			}
			p := ref.Pred{Name: f.Name}
			for k, ft := range f.Terms {
				if k == j {
					p.Terms = append(p.Terms, ref.Var("nd"))
				} else {
					p.Terms = append(p.Terms, ft)
				}
			}
			mk := func(e ref.Expr) ref.Check {
				return ref.Check{Queries: []ref.Rule{{Head: ref.Pred{Name: "query"}, Body: []ref.Pred{p}, Exprs: []ref.Expr{e}}}}
			}
			if g.R.Intn(2) == 0 {
				return []ref.Check{mk(e1), mk(e2)}
			}
			return []ref.Check{mk(e2), mk(e1)}
		}
	}
	return nil
}

// RuleOnlyBlock builds a block that carries nothing but rules: each derives what one of the
// target queries asks for from facts of bodyPool (facts that OTHER blocks state), so that the
// block derives nothing in its own scope and its rules can only fire if they leak into another.
func (g *G) RuleOnlyBlock(targets []ref.Rule, bodyPool []ref.Pred) ref.Block {
	var b ref.Block
	if len(bodyPool) == 0 {
		return b
	}
	for _, q := range targets {
		if len(b.Rules) >= 3 {
			break
		}
		for _, a := range q.Body {
			if g.R.Intn(2) == 0 {
				continue
			}
			f := bodyPool[g.R.Intn(len(bodyPool))]
			body := ref.Pred{Name: f.Name}
			for i, t := range f.Terms {
				if g.R.Intn(2) == 0 {
					body.Terms = append(body.Terms, ref.Var(fmt.Sprintf("r%d", i)))
				} else {
					body.Terms = append(body.Terms, t)
				}
			}
			b.Rules = append(b.Rules, ref.Rule{Head: g.instantiate(a), Body: []ref.Pred{body}})
		}
	}
	return b
}

// NearDuplicateRules returns two rules that are identical except for the kind
// of one operator ("<" / ">", starts_with / ends_with).
func (g *G) NearDuplicateRules(facts []ref.Pred) []ref.Rule {
	for _, i := range g.R.Perm(len(facts)) {
		f := facts[i]
		for j, t := range f.Terms {
			var ops [2]string
			var rhs ref.Term
			switch t.K {
			case ref.KInt:
				ops, rhs = [2]string{"<", ">"}, ref.Int(t.I+int64(g.R.Intn(3))-1)
			case ref.KDate:
				ops, rhs = [2]string{"<=", ">="}, ref.Date(t.D+uint64(g.R.Intn(2)))
			case ref.KStr:
				ops, rhs = [2]string{"prefix", "suffix"}, ref.Str(t.S)
				if len(t.S) > 1 {
					rhs = ref.Str(t.S[:1])
				}
			default:
				continue
			}
			body := ref.Pred{Name: f.Name}
			for k, ft := range f.Terms {
				if k == j {
					body.Terms = append(body.Terms, ref.Var("nr"))
				} else {
					body.Terms = append(body.Terms, ft)
				}
			}
			head := ref.Pred{Name: "twin_of_" + f.Name, Terms: []ref.Term{ref.Var("nr")}}
			mk := func(op string) ref.Rule {
				return ref.Rule{Head: head, Body: []ref.Pred{body}, Exprs: []ref.Expr{ref.Bin(op, ref.Leaf(ref.Var("nr")), ref.Leaf(rhs))}}
			}
			return []ref.Rule{mk(ops[0]), mk(ops[1])}
		}
	}
	return nil
}

// Targets collects the queries of an authorizer and of a token's checks.
func Targets(a ref.Authz, tok *ref.Token) []ref.Rule {
	var out []ref.Rule
	for _, p := range a.Policies {
		out = append(out, p.Queries...)
	}
	for _, c := range a.Checks {
		out = append(out, c.Queries...)
	}
	if tok != nil {
		for _, b := range tok.Blocks {
			for _, c := range b.Checks {
				out = append(out, c.Queries...)
			}
		}
	}
	return out
}

// Package gen is the typed generator of Datalog content ("G" in DESIGN.md).
// Everything it emits is inside the specified fragment: ground facts,
// range-restricted rules, expressions that are type-correct and error-free by
// construction (or, on request, fail for every binding).
package gen

import (
	"fmt"
	"math/rand"

	"bsim/ref"
)

type Sig struct {
	Name  string
	Kinds []string // element kinds; a set position is "S"+elemKind
}

type G struct {
	R       *rand.Rand
	Sigs    []Sig
	Strs    []string
	Ints    []int64
	Dates   []uint64
	Byts    [][]byte
	NoBytesSet bool // do not emit sets of byte arrays
	VarNames []string
}

var defaultNames = []string{"right", "resource", "operation", "owner", "user", "role", "time", "group", "member", "admin"}
var freshNames = []string{"file", "p", "q", "edge", "path2", "allowed", "revoked", "seen", "t", "has_access", "parent"}
var strPoolAll = []string{"read", "write", "file1", "file2", "/a/file1.txt", "", "a", "ab", "abc", "alice", "bob", "admin", "x", "resource", "dir/", "9", "éà"}
var regexPool = []string{"^file[0-9]$", "a", "^a.*c$", "^$", "[0-9]+", "^/a/.*\\.txt$", "b|c"}
var scalarKinds = []string{ref.KInt, ref.KStr, ref.KDate, ref.KBytes, ref.KBool}

func New(r *rand.Rand) *G {
	g := &G{R: r}
	// constant pools: small so joins and equalities actually happen
	ns := 3 + r.Intn(5)
	perm := r.Perm(len(strPoolAll))
	for i := 0; i < ns; i++ {
		g.Strs = append(g.Strs, strPoolAll[perm[i]])
	}
	for i := 0; i < 3+r.Intn(3); i++ {
		g.Ints = append(g.Ints, int64(r.Intn(9))-2)
	}
	base := uint64(1600000000)
	for i := 0; i < 3; i++ {
		g.Dates = append(g.Dates, base+uint64(r.Intn(5))*86400)
	}
	if r.Intn(4) == 0 {
		g.Dates = append(g.Dates, 0)
	}
	if r.Intn(5) == 0 {
		// instants before 1970 (the wire carries them as wrapped unsigned seconds): the second before
		// the epoch, a year before it, Go's zero time.Time
		neg := []int64{-1, -365 * 86400, -62135596800}
		g.Dates = append(g.Dates, uint64(neg[r.Intn(len(neg))]))
	}
	g.Byts = [][]byte{{}, {0x41}, {0x41, 0x42}, {0xff, 0x00, 0x10}}
	g.VarNames = []string{"x", "y", "z", "u", "v", "w"}
	if r.Intn(3) == 0 {
		// variable names that collide with strings used as constants / predicate names
		g.VarNames = []string{"read", "file1", "resource", "a", "x", "0"}
	}
	// signatures
	n := 3 + r.Intn(5)
	used := map[string]bool{}
	for i := 0; i < n; i++ {
		var name string
		for {
			if r.Intn(2) == 0 {
				name = defaultNames[r.Intn(len(defaultNames))]
			} else {
				name = freshNames[r.Intn(len(freshNames))]
			}
			if !used[name] {
				break
			}
		}
		used[name] = true
		ar := []int{0, 1, 1, 2, 2, 2, 3}[r.Intn(7)]
		sg := Sig{Name: name}
		for j := 0; j < ar; j++ {
			sg.Kinds = append(sg.Kinds, g.kind())
		}
		g.Sigs = append(g.Sigs, sg)
	}
	// sometimes one predicate name is used with two arities (legal: name/arity identify a relation)
	if r.Intn(4) == 0 {
		base := g.Sigs[r.Intn(len(g.Sigs))]
		over := Sig{Name: base.Name}
		ar := (len(base.Kinds) + 1 + r.Intn(2)) % 4
		for j := 0; j < ar; j++ {
			if j < len(base.Kinds) {
				over.Kinds = append(over.Kinds, base.Kinds[j])
			} else {
				over.Kinds = append(over.Kinds, g.kind())
			}
		}
		if len(over.Kinds) != len(base.Kinds) {
			g.Sigs = append(g.Sigs, over)
		}
	}
	return g
}

func (g *G) kind() string {
	// bias towards ints and strings so joins are meaningful
	switch x := g.R.Intn(20); {
	case x < 7:
		return ref.KInt
	case x < 13:
		return ref.KStr
	case x < 15:
		return ref.KDate
	case x < 16:
		return ref.KBytes
	case x < 17:
		return ref.KBool
	default:
		ek := scalarKinds[g.R.Intn(len(scalarKinds))]
		if ek == ref.KBool {
			ek = ref.KInt
		}
		return "S" + ek
	}
}

// Const returns a constant of the given kind.
// BoundaryInts adds, one time in eight, the ends of the integer range (and -1, which turns one into
// the other) to the pool of integer constants. Arithmetic on them overflows for some matches and not
// for others, so it is only for generators whose oracle knows what a failing match means (the
// reference model); the relational oracles are stated for the error-free fragment.
func (g *G) BoundaryInts() {
	if g.R.Intn(8) == 0 {
		g.Ints = append(g.Ints, []int64{-1 << 63, 1<<63 - 1, -1}[g.R.Intn(3)], -1)
	}
}

func (g *G) Const(kind string) ref.Term {
	r := g.R
	switch kind {
	case ref.KInt:
		return ref.Int(g.Ints[r.Intn(len(g.Ints))])
	case ref.KStr:
		return ref.Str(g.Strs[r.Intn(len(g.Strs))])
	case ref.KDate:
		return ref.Date(g.Dates[r.Intn(len(g.Dates))])
	case ref.KBytes:
		return ref.Bytes(g.Byts[r.Intn(len(g.Byts))])
	case ref.KBool:
		return ref.Bool(r.Intn(2) == 0)
	}
	if len(kind) == 2 && kind[0] == 'S' {
		ek := kind[1:]
		if ek == ref.KBytes && g.NoBytesSet {
			ek = ref.KInt
		}
		n := 1 + r.Intn(3)
		seen := map[string]bool{}
		out := ref.Term{K: ref.KSet}
		for i := 0; i < n*3 && len(out.Set) < n; i++ {
			e := g.Const(ek)
			if !seen[e.Canon()] {
				seen[e.Canon()] = true
				out.Set = append(out.Set, e)
			}
		}
		return out
	}
	panic("gen: kind " + kind)
}

func (g *G) sig() Sig { return g.Sigs[g.R.Intn(len(g.Sigs))] }

func (g *G) FactOf(s Sig) ref.Pred {
	p := ref.Pred{Name: s.Name}
	for _, k := range s.Kinds {
		p.Terms = append(p.Terms, g.Const(k))
	}
	return p
}

func (g *G) Fact() ref.Pred { return g.FactOf(g.sig()) }

// Facts returns n distinct facts.
func (g *G) Facts(n int) []ref.Pred {
	seen := map[string]bool{}
	var out []ref.Pred
	for i := 0; i < n*3 && len(out) < n; i++ {
		f := g.Fact()
		if !seen[f.Canon()] {
			seen[f.Canon()] = true
			out = append(out, f)
		}
	}
	return out
}

type varEnv struct {
	kinds map[string]string
	order []string
}

// bodyAtom makes a body atom over signature s, reusing variables of the right kind.
func (g *G) bodyAtom(s Sig, env *varEnv) ref.Pred {
	p := ref.Pred{Name: s.Name}
	for _, k := range s.Kinds {
		switch x := g.R.Intn(10); {
		case x < 2:
			p.Terms = append(p.Terms, g.Const(k))
		default:
			// reuse an existing variable of this kind (join / repeated variable) or take a new one
			var cands []string
			for _, v := range env.order {
				if env.kinds[v] == k {
					cands = append(cands, v)
				}
			}
			if len(cands) > 0 && g.R.Intn(2) == 0 {
				p.Terms = append(p.Terms, ref.Var(cands[g.R.Intn(len(cands))]))
			} else {
				var name string
				for _, v := range g.VarNames {
					if _, ok := env.kinds[v]; !ok {
						name = v
						break
					}
				}
				if name == "" {
					p.Terms = append(p.Terms, g.Const(k))
					continue
				}
				env.kinds[name] = k
				env.order = append(env.order, name)
				p.Terms = append(p.Terms, ref.Var(name))
			}
		}
	}
	return p
}

// Body makes 1..n body atoms and 0..2 expressions over their variables.
func (g *G) Body(maxAtoms int, failing bool) ([]ref.Pred, []ref.Expr, *varEnv) {
	env := &varEnv{kinds: map[string]string{}}
	n := 1 + g.R.Intn(maxAtoms)
	var body []ref.Pred
	for i := 0; i < n; i++ {
		body = append(body, g.bodyAtom(g.sig(), env))
	}
	var exprs []ref.Expr
	ne := []int{0, 0, 0, 1, 1, 2}[g.R.Intn(6)]
	for i := 0; i < ne; i++ {
		exprs = append(exprs, g.BoolExpr(env, 2))
	}
	if failing {
		exprs = append(exprs, g.FailingExpr(env))
	}
	return body, exprs, env
}

// Rule makes a range-restricted rule whose head is over some signature.
func (g *G) Rule() ref.Rule {
	for tries := 0; tries < 20; tries++ {
		body, exprs, env := g.Body(3, false)
		hs := g.sig()
		head := ref.Pred{Name: hs.Name}
		ok := true
		for _, k := range hs.Kinds {
			var cands []string
			for _, v := range env.order {
				if env.kinds[v] == k {
					cands = append(cands, v)
				}
			}
			if len(cands) > 0 && g.R.Intn(5) != 0 {
				head.Terms = append(head.Terms, ref.Var(cands[g.R.Intn(len(cands))]))
			} else {
				head.Terms = append(head.Terms, g.Const(k))
			}
		}
		if ok {
			return ref.Rule{Head: head, Body: body, Exprs: exprs}
		}
	}
	panic("unreachable")
}

// Query makes a query rule (head "query" without terms, as the parser does,
// or with a subset of the body's variables).
func (g *G) Query(failing bool) ref.Rule {
	if g.R.Intn(12) == 0 {
		// expression-only query
		env := &varEnv{kinds: map[string]string{}}
		e := g.BoolExpr(env, 2)
		if failing {
			e = g.FailingExpr(env)
		}
		return ref.Rule{Head: ref.Pred{Name: "query"}, Exprs: []ref.Expr{e}}
	}
	body, exprs, env := g.Body(2, failing)
	head := ref.Pred{Name: "query"}
	if g.R.Intn(3) == 0 {
		for _, v := range env.order {
			if g.R.Intn(2) == 0 {
				head.Terms = append(head.Terms, ref.Var(v))
			}
		}
	}
	return ref.Rule{Head: head, Body: body, Exprs: exprs}
}

func (g *G) Check(failingP int) ref.Check {
	n := []int{1, 1, 1, 2, 2, 3}[g.R.Intn(6)]
	var c ref.Check
	for i := 0; i < n; i++ {
		c.Queries = append(c.Queries, g.Query(failingP > 0 && g.R.Intn(failingP) == 0))
	}
	return c
}

func (g *G) Policy(failingP int) ref.Policy {
	n := []int{1, 1, 2}[g.R.Intn(3)]
	p := ref.Policy{Allow: g.R.Intn(3) != 0}
	for i := 0; i < n; i++ {
		p.Queries = append(p.Queries, g.Query(failingP > 0 && g.R.Intn(failingP) == 0))
	}
	return p
}

// TrueQuery is a query that always matches (expression-only "true").
func TrueQuery() ref.Rule {
	return ref.Rule{Head: ref.Pred{Name: "query"}, Exprs: []ref.Expr{ref.Leaf(ref.Bool(true))}}
}

func (g *G) Block(maxFacts, maxRules, maxChecks int) ref.Block {
	b := ref.Block{}
	b.Facts = g.Facts(g.R.Intn(maxFacts + 1))
	for i := g.R.Intn(maxRules + 1); i > 0; i-- {
		b.Rules = append(b.Rules, g.Rule())
	}
	for i := g.R.Intn(maxChecks + 1); i > 0; i-- {
		b.Checks = append(b.Checks, g.Check(0))
	}
	if g.R.Intn(4) == 0 {
		b.Context = fmt.Sprintf("ctx-%d", g.R.Intn(100))
	}
	return b
}

func (g *G) Authz(maxFacts, maxRules, maxChecks, maxPolicies int, failingP int) ref.Authz {
	a := ref.Authz{}
	a.Facts = g.Facts(g.R.Intn(maxFacts + 1))
	for i := g.R.Intn(maxRules + 1); i > 0; i-- {
		a.Rules = append(a.Rules, g.Rule())
	}
	for i := g.R.Intn(maxChecks + 1); i > 0; i-- {
		a.Checks = append(a.Checks, g.Check(failingP))
	}
	for i := g.R.Intn(maxPolicies + 1); i > 0; i-- {
		a.Policies = append(a.Policies, g.Policy(failingP))
	}
	if g.R.Intn(3) == 0 {
		a.Policies = append(a.Policies, ref.Policy{Allow: g.R.Intn(4) != 0, Queries: []ref.Rule{TrueQuery()}})
	}
	return a
}

// ---- expressions

func lit(t ref.Term) ref.Expr { return ref.Leaf(t) }

func (g *G) pickVar(env *varEnv, kind string) (ref.Expr, bool) {
	var cands []string
	for _, v := range env.order {
		if env.kinds[v] == kind {
			cands = append(cands, v)
		}
	}
	if len(cands) == 0 {
		return ref.Expr{}, false
	}
	return ref.Leaf(ref.Var(cands[g.R.Intn(len(cands))])), true
}

// operand returns an expression of the given kind: a variable when one is
// available (mostly), else a constant. Small arithmetic on ints.
func (g *G) operand(env *varEnv, kind string, depth int) ref.Expr {
	if v, ok := g.pickVar(env, kind); ok && g.R.Intn(4) != 0 {
		if kind == ref.KInt && depth > 0 && g.R.Intn(3) == 0 {
			c := lit(ref.Int(int64(1 + g.R.Intn(3))))
			op := []string{"+", "-", "*", "/"}[g.R.Intn(4)]
			e := ref.Bin(op, v, c)
			if g.R.Intn(3) == 0 {
				e = ref.Un("()", e)
			}
			return e
		}
		if kind == ref.KStr && depth > 0 && g.R.Intn(5) == 0 {
			return ref.Bin("+", v, lit(g.Const(ref.KStr)))
		}
		return v
	}
	c := lit(g.Const(kind))
	if kind == ref.KInt && depth > 0 && g.R.Intn(6) == 0 {
		return ref.Bin("+", c, lit(ref.Int(int64(g.R.Intn(3)))))
	}
	return c
}

// BoolExpr returns a type-correct, error-free boolean expression.
func (g *G) BoolExpr(env *varEnv, depth int) ref.Expr {
	r := g.R
	if depth > 0 && r.Intn(4) == 0 {
		a, b := g.BoolExpr(env, depth-1), g.BoolExpr(env, depth-1)
		switch r.Intn(4) {
		case 0:
			return ref.Bin("&&", a, b)
		case 1:
			return ref.Bin("||", a, b)
		case 2:
			return ref.Un("!", ref.Un("()", a))
		default:
			return ref.Un("()", ref.Bin("||", a, b))
		}
	}
	// choose a kind that has a variable if possible
	kinds := []string{}
	for _, v := range env.order {
		kinds = append(kinds, env.kinds[v])
	}
	var kind string
	if len(kinds) > 0 && r.Intn(6) != 0 {
		kind = kinds[r.Intn(len(kinds))]
	} else {
		kind = []string{ref.KInt, ref.KStr, ref.KDate, ref.KBytes, ref.KBool, "Si", "Ss"}[r.Intn(7)]
	}
	switch kind {
	case ref.KInt:
		l := g.operand(env, kind, depth)
		switch r.Intn(7) {
		case 0, 1, 2, 3:
			return ref.Bin([]string{"<", "<=", ">", ">="}[r.Intn(4)], l, g.operand(env, kind, depth))
		case 4:
			return ref.Bin("==", l, g.operand(env, kind, depth))
		case 5:
			return ref.Bin("contains", lit(g.Const("Si")), l)
		default:
			return ref.Un("!", ref.Bin("contains", lit(g.Const("Si")), l))
		}
	case ref.KStr:
		l := g.operand(env, kind, depth)
		switch r.Intn(8) {
		case 0:
			return ref.Bin("==", l, g.operand(env, kind, depth))
		case 1:
			return ref.Bin("prefix", l, lit(g.Const(kind)))
		case 2:
			return ref.Bin("suffix", l, lit(g.Const(kind)))
		case 3:
			return ref.Bin("contains", l, lit(g.Const(kind)))
		case 4:
			return ref.Bin("regex", l, lit(ref.Str(regexPool[r.Intn(len(regexPool))])))
		case 5:
			return ref.Bin([]string{"<", ">=", "=="}[r.Intn(3)], ref.Un("len", l), lit(ref.Int(int64(r.Intn(5)))))
		case 6:
			return ref.Bin("contains", lit(g.Const("Ss")), l)
		default:
			return ref.Bin("==", ref.Bin("+", l, lit(g.Const(kind))), lit(ref.Str(g.Strs[r.Intn(len(g.Strs))]+g.Strs[r.Intn(len(g.Strs))])))
		}
	case ref.KDate:
		l := g.operand(env, kind, depth)
		return ref.Bin([]string{"<", "<=", ">", ">=", "=="}[r.Intn(5)], l, g.operand(env, kind, depth))
	case ref.KBytes:
		l := g.operand(env, kind, depth)
		switch r.Intn(3) {
		case 0:
			return ref.Bin("==", l, lit(g.Const(kind)))
		case 1:
			return ref.Bin("==", ref.Un("len", l), lit(ref.Int(int64(r.Intn(4)))))
		default:
			if g.NoBytesSet {
				return ref.Bin("==", l, lit(g.Const(kind)))
			}
			return ref.Bin("contains", lit(g.Const("Sb")), l)
		}
	case ref.KBool:
		l := g.operand(env, kind, depth)
		switch r.Intn(4) {
		case 0:
			return l
		case 1:
			return ref.Un("!", l)
		case 2:
			return ref.Bin("==", l, lit(g.Const(kind)))
		default:
			return ref.Bin("||", l, ref.Bin("&&", lit(g.Const(kind)), l))
		}
	default: // set kinds
		ek := kind[1:]
		l := g.operand(env, kind, depth)
		switch r.Intn(6) {
		case 0:
			return ref.Bin("contains", l, lit(g.Const(ek)))
		case 1:
			return ref.Bin("contains", l, lit(g.Const(kind)))
		case 2:
			return ref.Bin([]string{"==", ">", "<="}[r.Intn(3)], ref.Un("len", l), lit(ref.Int(int64(r.Intn(4)))))
		case 3:
			return ref.Bin(">", ref.Un("len", ref.Bin("inter", l, lit(g.Const(kind)))), lit(ref.Int(0)))
		case 4:
			return ref.Bin("contains", ref.Bin("union", l, lit(g.Const(kind))), lit(g.Const(ek)))
		default:
			return ref.Bin("==", l, lit(g.Const(kind)))
		}
	}
}

// FailingExpr returns an expression that fails with an error for every binding.
func (g *G) FailingExpr(env *varEnv) ref.Expr {
	switch g.R.Intn(6) {
	case 4: // the failing operation comes last, with an operand still waiting for it
		return ref.Bin("==", lit(ref.Int(1)), ref.Bin("/", lit(ref.Int(1)), lit(ref.Int(0))))
	case 5:
		return ref.Bin("&&", lit(ref.Bool(true)), ref.Bin("<", lit(ref.Str("a")), lit(ref.Str("b"))))
	case 0:
		return ref.Bin("==", ref.Bin("/", lit(ref.Int(1)), lit(ref.Int(0))), lit(ref.Int(1)))
	case 1:
		return ref.Bin("<", lit(ref.Str("a")), lit(ref.Str("b")))
	case 2:
		return ref.Bin("&&", lit(ref.Int(1)), lit(ref.Bool(true)))
	default:
		return ref.Bin("==", lit(ref.Int(1)), lit(ref.Str("1")))
	}
}

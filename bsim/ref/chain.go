package ref

import (
	"bytes"
	"crypto/ed25519"
	"encoding/binary"
	"fmt"
)

// SignedPayload is what a block signature covers: block bytes, the algorithm
// of the announced key as a little-endian uint32, and the announced key.
func SignedPayload(sb *WSignedBlock) []byte {
	out := append([]byte{}, sb.Block...)
	var a [4]byte
	binary.LittleEndian.PutUint32(a[:], uint32(sb.Alg))
	out = append(out, a[:]...)
	return append(out, sb.Key...)
}

// SealPayload is what a seal signature covers.
func SealPayload(sb *WSignedBlock) []byte {
	return append(SignedPayload(sb), sb.Signature...)
}

// VerifyChain walks the signature chain of the specification. A nil result
// means: authority signed by root, every later block signed by the key
// announced before it, and the proof matches the last announced key.
func VerifyChain(env *WBiscuit, root ed25519.PublicKey) error {
	if len(root) != ed25519.PublicKeySize {
		return fmt.Errorf("chain: root key size %d", len(root))
	}
	cur := []byte(root)
	for i, sb := range env.All() {
		if sb.Alg != 0 {
			return fmt.Errorf("chain: block %d: unsupported algorithm %d", i, sb.Alg)
		}
		if len(sb.Key) != ed25519.PublicKeySize {
			return fmt.Errorf("chain: block %d: announced key size %d", i, len(sb.Key))
		}
		if len(sb.Signature) != ed25519.SignatureSize {
			return fmt.Errorf("chain: block %d: signature size %d", i, len(sb.Signature))
		}
		if !ed25519.Verify(ed25519.PublicKey(cur), SignedPayload(sb), sb.Signature) {
			return fmt.Errorf("chain: block %d: bad signature", i)
		}
		cur = sb.Key
	}
	last := env.All()[len(env.All())-1]
	switch {
	case env.NextSecret != nil:
		if len(env.NextSecret) != ed25519.SeedSize {
			return fmt.Errorf("chain: next secret size %d", len(env.NextSecret))
		}
		pub := ed25519.NewKeyFromSeed(env.NextSecret).Public().(ed25519.PublicKey)
		if !bytes.Equal(pub, cur) {
			return fmt.Errorf("chain: next secret does not match last announced key")
		}
	case env.FinalSignature != nil:
		if len(env.FinalSignature) != ed25519.SignatureSize {
			return fmt.Errorf("chain: seal signature size %d", len(env.FinalSignature))
		}
		if !ed25519.Verify(ed25519.PublicKey(cur), SealPayload(last), env.FinalSignature) {
			return fmt.Errorf("chain: bad seal signature")
		}
	default:
		return fmt.Errorf("chain: no proof")
	}
	return nil
}

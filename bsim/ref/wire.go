package ref

import (
	"errors"
	"fmt"
)

// Hand-written protobuf wire reader/writer. Field numbers are transcribed from
// pb/biscuit.proto (schema version 3). No protobuf library is used.

type field struct {
	Num  int
	WT   int // 0 varint, 1 fixed64, 2 bytes, 5 fixed32
	V    uint64
	B    []byte
}

var ErrWire = errors.New("ref: malformed wire data")

func readVarint(b []byte) (uint64, int) {
	var v uint64
	for i := 0; i < len(b) && i < 10; i++ {
		c := b[i]
		if i == 9 && c > 1 {
			return 0, -1
		}
		v |= uint64(c&0x7f) << (7 * uint(i))
		if c < 0x80 {
			return v, i + 1
		}
	}
	return 0, -1
}

func parseFields(b []byte) ([]field, error) {
	var out []field
	for len(b) > 0 {
		tag, n := readVarint(b)
		if n < 0 {
			return nil, ErrWire
		}
		b = b[n:]
		num, wt := int(tag>>3), int(tag&7)
		if num <= 0 || tag>>3 > 1<<29-1 {
			return nil, ErrWire
		}
		f := field{Num: num, WT: wt}
		switch wt {
		case 0:
			v, n := readVarint(b)
			if n < 0 {
				return nil, ErrWire
			}
			f.V = v
			b = b[n:]
		case 1:
			if len(b) < 8 {
				return nil, ErrWire
			}
			b = b[8:]
		case 5:
			if len(b) < 4 {
				return nil, ErrWire
			}
			b = b[4:]
		case 2:
			l, n := readVarint(b)
			if n < 0 || l > uint64(len(b)-n) {
				return nil, ErrWire
			}
			f.B = b[n : n+int(l)]
			b = b[n+int(l):]
		case 3:
			// group: skip to matching end group
			depth := 1
			for depth > 0 {
				if len(b) == 0 {
					return nil, ErrWire
				}
				t2, n2 := readVarint(b)
				if n2 < 0 {
					return nil, ErrWire
				}
				b = b[n2:]
				switch int(t2 & 7) {
				case 0:
					_, n3 := readVarint(b)
					if n3 < 0 {
						return nil, ErrWire
					}
					b = b[n3:]
				case 1:
					if len(b) < 8 {
						return nil, ErrWire
					}
					b = b[8:]
				case 5:
					if len(b) < 4 {
						return nil, ErrWire
					}
					b = b[4:]
				case 2:
					l, n3 := readVarint(b)
					if n3 < 0 || l > uint64(len(b)-n3) {
						return nil, ErrWire
					}
					b = b[n3+int(l):]
				case 3:
					depth++
				case 4:
					depth--
				default:
					return nil, ErrWire
				}
			}
			f.WT = 3
		default:
			return nil, ErrWire
		}
		out = append(out, f)
	}
	return out, nil
}

// ---- writer

type W struct{ B []byte }

func (w *W) Varint(v uint64) {
	for v >= 0x80 {
		w.B = append(w.B, byte(v)|0x80)
		v >>= 7
	}
	w.B = append(w.B, byte(v))
}
func (w *W) Tag(num, wt int)          { w.Varint(uint64(num)<<3 | uint64(wt)) }
func (w *W) FVarint(num int, v uint64) { w.Tag(num, 0); w.Varint(v) }
func (w *W) FBytes(num int, b []byte) {
	w.Tag(num, 2)
	w.Varint(uint64(len(b)))
	w.B = append(w.B, b...)
}

// ---- envelope

type WSignedBlock struct {
	Block     []byte
	HasKey    bool
	Alg       uint64
	HasAlg    bool
	Key       []byte
	HasKeyB   bool
	Signature []byte
	HasSig    bool
	HasBlock  bool
}

type WBiscuit struct {
	RootKeyID      *uint32
	Authority      *WSignedBlock
	Blocks         []*WSignedBlock
	HasProof       bool
	NextSecret     []byte // proof oneof: exactly one of these non-nil when well-formed
	FinalSignature []byte
	Unknown        [][]byte // raw extra fields appended on encode
	ProofRaw       []byte   // when non-nil: the body of the proof message, written as it is
}

func decodeSignedBlock(b []byte) (*WSignedBlock, error) {
	fs, err := parseFields(b)
	if err != nil {
		return nil, err
	}
	sb := &WSignedBlock{}
	var keyMsg []byte
	for _, f := range fs {
		switch {
		case f.Num == 1 && f.WT == 2:
			sb.Block, sb.HasBlock = f.B, true
		case f.Num == 2 && f.WT == 2:
			keyMsg = append(keyMsg, f.B...) // repeated singular message fields merge
			sb.HasKey = true
		case f.Num == 3 && f.WT == 2:
			sb.Signature, sb.HasSig = f.B, true
		}
	}
	if sb.HasKey {
		kf, err := parseFields(keyMsg)
		if err != nil {
			return nil, err
		}
		for _, f := range kf {
			switch {
			case f.Num == 1 && f.WT == 0:
				sb.Alg, sb.HasAlg = f.V, true
			case f.Num == 2 && f.WT == 2:
				sb.Key, sb.HasKeyB = f.B, true
			}
		}
	}
	if !sb.HasBlock || !sb.HasKey || !sb.HasSig || !sb.HasAlg || !sb.HasKeyB {
		return nil, fmt.Errorf("%w: missing required field in SignedBlock", ErrWire)
	}
	return sb, nil
}

// DecodeBiscuit decodes the envelope (message Biscuit).
func DecodeBiscuit(b []byte) (*WBiscuit, error) {
	fs, err := parseFields(b)
	if err != nil {
		return nil, err
	}
	out := &WBiscuit{}
	var auth, proof []byte
	hasAuth := false
	for _, f := range fs {
		switch {
		case f.Num == 1 && f.WT == 0:
			v := uint32(f.V)
			out.RootKeyID = &v
		case f.Num == 2 && f.WT == 2:
			auth = append(auth, f.B...)
			hasAuth = true
		case f.Num == 3 && f.WT == 2:
			sb, err := decodeSignedBlock(f.B)
			if err != nil {
				return nil, err
			}
			out.Blocks = append(out.Blocks, sb)
		case f.Num == 4 && f.WT == 2:
			proof = append(proof, f.B...)
			out.HasProof = true
		}
	}
	if !hasAuth || !out.HasProof {
		return nil, fmt.Errorf("%w: missing required field in Biscuit", ErrWire)
	}
	out.Authority, err = decodeSignedBlock(auth)
	if err != nil {
		return nil, err
	}
	pf, err := parseFields(proof)
	if err != nil {
		return nil, err
	}
	for _, f := range pf { // oneof: last one wins
		switch {
		case f.Num == 1 && f.WT == 2:
			out.NextSecret, out.FinalSignature = f.B, nil
			if out.NextSecret == nil {
				out.NextSecret = []byte{}
			}
		case f.Num == 2 && f.WT == 2:
			out.FinalSignature, out.NextSecret = f.B, nil
			if out.FinalSignature == nil {
				out.FinalSignature = []byte{}
			}
		}
	}
	return out, nil
}

func (sb *WSignedBlock) encode() []byte {
	var w W
	w.FBytes(1, sb.Block)
	var k W
	k.FVarint(1, sb.Alg)
	k.FBytes(2, sb.Key)
	w.FBytes(2, k.B)
	w.FBytes(3, sb.Signature)
	return w.B
}

// Encode writes the envelope in canonical field order.
func (t *WBiscuit) Encode() []byte {
	var w W
	if t.RootKeyID != nil {
		w.FVarint(1, uint64(*t.RootKeyID))
	}
	if t.Authority != nil {
		w.FBytes(2, t.Authority.encode())
	}
	for _, b := range t.Blocks {
		w.FBytes(3, b.encode())
	}
	var p W
	if t.NextSecret != nil {
		p.FBytes(1, t.NextSecret)
	}
	if t.FinalSignature != nil {
		p.FBytes(2, t.FinalSignature)
	}
	if t.ProofRaw != nil {
		w.FBytes(4, t.ProofRaw)
	} else if t.HasProof {
		w.FBytes(4, p.B)
	}
	for _, u := range t.Unknown {
		w.B = append(w.B, u...)
	}
	return w.B
}

func (t *WBiscuit) Clone() *WBiscuit {
	n := &WBiscuit{HasProof: t.HasProof}
	if t.RootKeyID != nil {
		v := *t.RootKeyID
		n.RootKeyID = &v
	}
	cp := func(sb *WSignedBlock) *WSignedBlock {
		if sb == nil {
			return nil
		}
		c := *sb
		c.Block = append([]byte(nil), sb.Block...)
		c.Key = append([]byte(nil), sb.Key...)
		c.Signature = append([]byte(nil), sb.Signature...)
		return &c
	}
	n.Authority = cp(t.Authority)
	for _, b := range t.Blocks {
		n.Blocks = append(n.Blocks, cp(b))
	}
	if t.NextSecret != nil {
		n.NextSecret = append([]byte{}, t.NextSecret...)
	}
	if t.FinalSignature != nil {
		n.FinalSignature = append([]byte{}, t.FinalSignature...)
	}
	return n
}

// All returns authority followed by the other blocks.
func (t *WBiscuit) All() []*WSignedBlock {
	return append([]*WSignedBlock{t.Authority}, t.Blocks...)
}

// ---- block content

// WBlock is a decoded message Block with symbol indexes unresolved.
type WBlock struct {
	Symbols    []string
	Context    string
	HasContext bool
	Version    uint32
	HasVersion bool
	Facts      []WPred
	Rules      []WRule
	Checks     [][]WRule
}

type WTerm struct {
	K   string // as ref kinds; KStr and KVar carry a symbol index in U
	U   uint64
	I   int64
	B   []byte
	Set []WTerm
}

type WPred struct {
	Name  uint64
	Terms []WTerm
}

type WOp struct {
	Kind  string // "val", "un", "bin"
	Val   WTerm
	Code  uint64
}

type WRule struct {
	Head  WPred
	Body  []WPred
	Exprs [][]WOp
}

func decodeTerm(b []byte, depth int) (WTerm, error) {
	fs, err := parseFields(b)
	if err != nil {
		return WTerm{}, err
	}
	var t WTerm
	found := false
	for _, f := range fs { // oneof: last wins
		switch {
		case f.Num == 1 && f.WT == 0:
			t, found = WTerm{K: KVar, U: uint64(uint32(f.V))}, true
		case f.Num == 2 && f.WT == 0:
			t, found = WTerm{K: KInt, I: int64(f.V)}, true
		case f.Num == 3 && f.WT == 0:
			t, found = WTerm{K: KStr, U: f.V}, true
		case f.Num == 4 && f.WT == 0:
			t, found = WTerm{K: KDate, U: f.V}, true
		case f.Num == 5 && f.WT == 2:
			t, found = WTerm{K: KBytes, B: f.B}, true
		case f.Num == 6 && f.WT == 0:
			v := int64(0)
			if f.V != 0 {
				v = 1
			}
			t, found = WTerm{K: KBool, I: v}, true
		case f.Num == 7 && f.WT == 2:
			if depth > 8 {
				return WTerm{}, ErrWire
			}
			sf, err := parseFields(f.B)
			if err != nil {
				return WTerm{}, err
			}
			st := WTerm{K: KSet}
			for _, e := range sf {
				if e.Num == 1 && e.WT == 2 {
					et, err := decodeTerm(e.B, depth+1)
					if err != nil {
						return WTerm{}, err
					}
					st.Set = append(st.Set, et)
				}
			}
			t, found = st, true
		}
	}
	if !found {
		return WTerm{}, fmt.Errorf("%w: empty term", ErrWire)
	}
	return t, nil
}

func decodePred(b []byte) (WPred, error) {
	fs, err := parseFields(b)
	if err != nil {
		return WPred{}, err
	}
	var p WPred
	hasName := false
	for _, f := range fs {
		switch {
		case f.Num == 1 && f.WT == 0:
			p.Name, hasName = f.V, true
		case f.Num == 2 && f.WT == 2:
			t, err := decodeTerm(f.B, 0)
			if err != nil {
				return WPred{}, err
			}
			p.Terms = append(p.Terms, t)
		}
	}
	if !hasName {
		return WPred{}, fmt.Errorf("%w: predicate without name", ErrWire)
	}
	return p, nil
}

func decodeOps(b []byte) ([]WOp, error) {
	fs, err := parseFields(b)
	if err != nil {
		return nil, err
	}
	var ops []WOp
	for _, f := range fs {
		if f.Num != 1 || f.WT != 2 {
			continue
		}
		of, err := parseFields(f.B)
		if err != nil {
			return nil, err
		}
		var op WOp
		found := false
		for _, o := range of {
			switch {
			case o.Num == 1 && o.WT == 2:
				t, err := decodeTerm(o.B, 0)
				if err != nil {
					return nil, err
				}
				op, found = WOp{Kind: "val", Val: t}, true
			case (o.Num == 2 || o.Num == 3) && o.WT == 2:
				kf, err := parseFields(o.B)
				if err != nil {
					return nil, err
				}
				hasKind := false
				var code uint64
				for _, k := range kf {
					if k.Num == 1 && k.WT == 0 {
						code, hasKind = k.V, true
					}
				}
				if !hasKind {
					return nil, fmt.Errorf("%w: op without kind", ErrWire)
				}
				kind := "un"
				if o.Num == 3 {
					kind = "bin"
				}
				op, found = WOp{Kind: kind, Code: code}, true
			}
		}
		if !found {
			return nil, fmt.Errorf("%w: empty op", ErrWire)
		}
		ops = append(ops, op)
	}
	return ops, nil
}

func decodeRule(b []byte) (WRule, error) {
	fs, err := parseFields(b)
	if err != nil {
		return WRule{}, err
	}
	var r WRule
	var head []byte
	hasHead := false
	for _, f := range fs {
		switch {
		case f.Num == 1 && f.WT == 2:
			head = append(head, f.B...)
			hasHead = true
		case f.Num == 2 && f.WT == 2:
			p, err := decodePred(f.B)
			if err != nil {
				return WRule{}, err
			}
			r.Body = append(r.Body, p)
		case f.Num == 3 && f.WT == 2:
			ops, err := decodeOps(f.B)
			if err != nil {
				return WRule{}, err
			}
			r.Exprs = append(r.Exprs, ops)
		}
	}
	if !hasHead {
		return WRule{}, fmt.Errorf("%w: rule without head", ErrWire)
	}
	r.Head, err = decodePred(head)
	return r, err
}

func decodeQueries(b []byte, num int) ([]WRule, error) {
	fs, err := parseFields(b)
	if err != nil {
		return nil, err
	}
	var qs []WRule
	for _, q := range fs {
		if q.Num == num && q.WT == 2 {
			r, err := decodeRule(q.B)
			if err != nil {
				return nil, err
			}
			qs = append(qs, r)
		}
	}
	return qs, nil
}

// DecodeBlock decodes message Block.
func DecodeBlock(b []byte) (*WBlock, error) {
	fs, err := parseFields(b)
	if err != nil {
		return nil, err
	}
	blk := &WBlock{}
	for _, f := range fs {
		switch {
		case f.Num == 1 && f.WT == 2:
			blk.Symbols = append(blk.Symbols, string(f.B))
		case f.Num == 2 && f.WT == 2:
			blk.Context, blk.HasContext = string(f.B), true
		case f.Num == 3 && f.WT == 0:
			blk.Version, blk.HasVersion = uint32(f.V), true
		case f.Num == 4 && f.WT == 2:
			ff, err := parseFields(f.B)
			if err != nil {
				return nil, err
			}
			var pm []byte
			has := false
			for _, x := range ff {
				if x.Num == 1 && x.WT == 2 {
					pm = append(pm, x.B...)
					has = true
				}
			}
			if !has {
				return nil, fmt.Errorf("%w: fact without predicate", ErrWire)
			}
			p, err := decodePred(pm)
			if err != nil {
				return nil, err
			}
			blk.Facts = append(blk.Facts, p)
		case f.Num == 5 && f.WT == 2:
			r, err := decodeRule(f.B)
			if err != nil {
				return nil, err
			}
			blk.Rules = append(blk.Rules, r)
		case f.Num == 6 && f.WT == 2:
			qs, err := decodeQueries(f.B, 1)
			if err != nil {
				return nil, err
			}
			blk.Checks = append(blk.Checks, qs)
		}
	}
	return blk, nil
}

// ---- resolution to AST

var unaryNames = map[uint64]string{0: "!", 1: "()", 2: "len"}
var binaryNames = map[uint64]string{0: "<", 1: ">", 2: "<=", 3: ">=", 4: "==", 5: "contains", 6: "prefix", 7: "suffix", 8: "regex", 9: "+", 10: "-", 11: "*", 12: "/", 13: "&&", 14: "||", 15: "inter", 16: "union"}

var UnaryCodes = map[string]uint64{}
var BinaryCodes = map[string]uint64{}

func init() {
	for k, v := range unaryNames {
		UnaryCodes[v] = k
	}
	for k, v := range binaryNames {
		BinaryCodes[v] = k
	}
}

// Resolver resolves symbol indexes: default table below 1024, then the
// concatenation of the block tables seen so far.
type Resolver struct{ Table []string }

func (r *Resolver) Sym(i uint64) (string, error) {
	if i < SymbolOffset {
		if i < uint64(len(DefaultSymbols)) {
			return DefaultSymbols[i], nil
		}
		return "", fmt.Errorf("ref: unresolvable default symbol %d", i)
	}
	j := i - SymbolOffset
	if j >= uint64(len(r.Table)) {
		return "", fmt.Errorf("ref: unresolvable symbol %d", i)
	}
	return r.Table[j], nil
}

func (r *Resolver) term(t WTerm) (Term, error) {
	switch t.K {
	case KVar:
		s, err := r.Sym(t.U)
		return Var(s), err
	case KStr:
		s, err := r.Sym(t.U)
		return Str(s), err
	case KInt:
		return Int(t.I), nil
	case KDate:
		return Date(t.U), nil
	case KBytes:
		return Bytes(t.B), nil
	case KBool:
		return Bool(t.I != 0), nil
	case KSet:
		out := Term{K: KSet}
		for _, e := range t.Set {
			et, err := r.term(e)
			if err != nil {
				return Term{}, err
			}
			out.Set = append(out.Set, et)
		}
		return out, nil
	}
	return Term{}, fmt.Errorf("ref: bad term kind")
}

func (r *Resolver) pred(p WPred) (Pred, error) {
	n, err := r.Sym(p.Name)
	if err != nil {
		return Pred{}, err
	}
	out := Pred{Name: n}
	for _, t := range p.Terms {
		rt, err := r.term(t)
		if err != nil {
			return Pred{}, err
		}
		out.Terms = append(out.Terms, rt)
	}
	return out, nil
}

func (r *Resolver) expr(ops []WOp) (Expr, error) {
	var st []Expr
	for _, op := range ops {
		switch op.Kind {
		case "val":
			t, err := r.term(op.Val)
			if err != nil {
				return Expr{}, err
			}
			st = append(st, Leaf(t))
		case "un":
			n, ok := unaryNames[op.Code]
			if !ok || len(st) < 1 {
				return Expr{}, fmt.Errorf("ref: bad unary op")
			}
			st[len(st)-1] = Un(n, st[len(st)-1])
		case "bin":
			n, ok := binaryNames[op.Code]
			if !ok || len(st) < 2 {
				return Expr{}, fmt.Errorf("ref: bad binary op")
			}
			e := Bin(n, st[len(st)-2], st[len(st)-1])
			st = append(st[:len(st)-2], e)
		}
	}
	if len(st) != 1 {
		return Expr{}, fmt.Errorf("ref: ill-formed expression")
	}
	return st[0], nil
}

func (r *Resolver) rule(w WRule) (Rule, error) {
	h, err := r.pred(w.Head)
	if err != nil {
		return Rule{}, err
	}
	out := Rule{Head: h}
	for _, b := range w.Body {
		p, err := r.pred(b)
		if err != nil {
			return Rule{}, err
		}
		out.Body = append(out.Body, p)
	}
	for _, e := range w.Exprs {
		x, err := r.expr(e)
		if err != nil {
			return Rule{}, err
		}
		out.Exprs = append(out.Exprs, x)
	}
	return out, nil
}

// ResolveBlock extends the resolver with the block's own table and resolves
// the block content to AST.
func (r *Resolver) ResolveBlock(w *WBlock) (Block, error) {
	r.Table = append(r.Table, w.Symbols...)
	out := Block{Context: w.Context}
	for _, f := range w.Facts {
		p, err := r.pred(f)
		if err != nil {
			return out, err
		}
		out.Facts = append(out.Facts, p)
	}
	for _, x := range w.Rules {
		rr, err := r.rule(x)
		if err != nil {
			return out, err
		}
		out.Rules = append(out.Rules, rr)
	}
	for _, c := range w.Checks {
		var ck Check
		for _, q := range c {
			rr, err := r.rule(q)
			if err != nil {
				return out, err
			}
			ck.Queries = append(ck.Queries, rr)
		}
		out.Checks = append(out.Checks, ck)
	}
	return out, nil
}

// DecodeToken decodes a whole serialized token to the abstract token, checking
// the symbol rules of the schema. Returned problems is a list of schema-rule
// violations (non-empty means the bytes do not follow the published rules).
func DecodeToken(b []byte) (tok *Token, env *WBiscuit, problems []string, err error) {
	return DecodeTokenBase(b, nil)
}

// DecodeTokenBase is DecodeToken for parties that agreed on extra base symbols
// (a caller-supplied table that both issuer and reader start from): they occupy
// the indexes from 1024 on, before the first block's own table.
func DecodeTokenBase(b []byte, base []string) (tok *Token, env *WBiscuit, problems []string, err error) {
	env, err = DecodeBiscuit(b)
	if err != nil {
		return nil, nil, nil, err
	}
	tok = &Token{RootID: env.RootKeyID, Sealed: env.FinalSignature != nil}
	res := &Resolver{Table: append([]string{}, base...)}
	seen := map[string]bool{}
	for _, s := range DefaultSymbols {
		seen[s] = true
	}
	for _, s := range base {
		seen[s] = true
	}
	for i, sb := range env.All() {
		wb, err := DecodeBlock(sb.Block)
		if err != nil {
			return nil, env, nil, fmt.Errorf("block %d: %w", i, err)
		}
		if !wb.HasVersion || wb.Version != 3 {
			problems = append(problems, fmt.Sprintf("block %d: version %d (present=%v), want 3", i, wb.Version, wb.HasVersion))
		}
		for _, s := range wb.Symbols {
			if seen[s] {
				problems = append(problems, fmt.Sprintf("block %d: symbol %q already in an earlier table", i, s))
			}
			seen[s] = true
		}
		blk, err := res.ResolveBlock(wb)
		if err != nil {
			return nil, env, problems, fmt.Errorf("block %d: %w", i, err)
		}
		tok.Blocks = append(tok.Blocks, blk)
	}
	return tok, env, problems, nil
}

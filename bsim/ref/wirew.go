package ref

// Writers for block content with raw (possibly adversarial) symbol indexes,
// used by the Byzantine issuer and by the adversary's structural mutations.

func encTerm(t WTerm) []byte {
	var w W
	switch t.K {
	case KVar:
		w.FVarint(1, t.U)
	case KInt:
		w.FVarint(2, uint64(t.I))
	case KStr:
		w.FVarint(3, t.U)
	case KDate:
		w.FVarint(4, t.U)
	case KBytes:
		w.FBytes(5, t.B)
	case KBool:
		w.FVarint(6, uint64(t.I))
	case KSet:
		var s W
		for _, e := range t.Set {
			s.FBytes(1, encTerm(e))
		}
		w.FBytes(7, s.B)
	}
	return w.B
}

func encPred(p WPred) []byte {
	var w W
	w.FVarint(1, p.Name)
	for _, t := range p.Terms {
		w.FBytes(2, encTerm(t))
	}
	return w.B
}

func encOps(ops []WOp) []byte {
	var w W
	for _, op := range ops {
		var o W
		switch op.Kind {
		case "val":
			o.FBytes(1, encTerm(op.Val))
		case "un":
			var k W
			k.FVarint(1, op.Code)
			o.FBytes(2, k.B)
		case "bin":
			var k W
			k.FVarint(1, op.Code)
			o.FBytes(3, k.B)
		}
		w.FBytes(1, o.B)
	}
	return w.B
}

func encRule(r WRule) []byte {
	var w W
	w.FBytes(1, encPred(r.Head))
	for _, b := range r.Body {
		w.FBytes(2, encPred(b))
	}
	for _, e := range r.Exprs {
		w.FBytes(3, encOps(e))
	}
	return w.B
}

// Encode writes message Block.
func (b *WBlock) Encode() []byte {
	var w W
	for _, s := range b.Symbols {
		w.FBytes(1, []byte(s))
	}
	if b.HasContext {
		w.FBytes(2, []byte(b.Context))
	}
	if b.HasVersion {
		w.FVarint(3, uint64(b.Version))
	}
	for _, f := range b.Facts {
		var fw W
		fw.FBytes(1, encPred(f))
		w.FBytes(4, fw.B)
	}
	for _, r := range b.Rules {
		w.FBytes(5, encRule(r))
	}
	for _, c := range b.Checks {
		var cw W
		for _, q := range c {
			cw.FBytes(1, encRule(q))
		}
		w.FBytes(6, cw.B)
	}
	return w.B
}

// Interner assigns symbol indexes the way the schema prescribes.
type Interner struct {
	Prev []string // symbols of earlier blocks
	New  []string // symbols introduced by this block
}

func (in *Interner) Sym(s string) uint64 {
	for i, d := range DefaultSymbols {
		if d == s {
			return uint64(i)
		}
	}
	for i, d := range in.Prev {
		if d == s {
			return uint64(SymbolOffset + i)
		}
	}
	for i, d := range in.New {
		if d == s {
			return uint64(SymbolOffset + len(in.Prev) + i)
		}
	}
	in.New = append(in.New, s)
	return uint64(SymbolOffset + len(in.Prev) + len(in.New) - 1)
}

func (in *Interner) term(t Term) WTerm {
	switch t.K {
	case KVar:
		return WTerm{K: KVar, U: in.Sym(t.S)}
	case KStr:
		return WTerm{K: KStr, U: in.Sym(t.S)}
	case KInt:
		return WTerm{K: KInt, I: t.I}
	case KDate:
		return WTerm{K: KDate, U: t.D}
	case KBytes:
		return WTerm{K: KBytes, B: t.RawBytes()}
	case KBool:
		return WTerm{K: KBool, I: t.I}
	case KSet:
		o := WTerm{K: KSet}
		for _, e := range t.Set {
			o.Set = append(o.Set, in.term(e))
		}
		return o
	}
	return WTerm{}
}

func (in *Interner) pred(p Pred) WPred {
	o := WPred{}
	for _, t := range p.Terms {
		o.Terms = append(o.Terms, in.term(t))
	}
	o.Name = in.Sym(p.Name)
	return o
}

func (in *Interner) ops(e Expr, acc *[]WOp) {
	if e.Op == "" {
		*acc = append(*acc, WOp{Kind: "val", Val: in.term(*e.T)})
		return
	}
	for _, a := range e.Args {
		in.ops(a, acc)
	}
	if len(e.Args) == 1 {
		*acc = append(*acc, WOp{Kind: "un", Code: UnaryCodes[e.Op]})
	} else {
		*acc = append(*acc, WOp{Kind: "bin", Code: BinaryCodes[e.Op]})
	}
}

func (in *Interner) rule(r Rule) WRule {
	o := WRule{}
	for _, b := range r.Body {
		o.Body = append(o.Body, in.pred(b))
	}
	for _, e := range r.Exprs {
		var ops []WOp
		in.ops(e, &ops)
		o.Exprs = append(o.Exprs, ops)
	}
	o.Head = in.pred(r.Head)
	return o
}

// LowerBlock converts AST block content to a wire block following the symbol
// rules (new symbols only).
func (in *Interner) LowerBlock(b Block) *WBlock {
	w := &WBlock{Context: b.Context, HasContext: true, Version: 3, HasVersion: true}
	for _, f := range b.Facts {
		w.Facts = append(w.Facts, in.pred(f))
	}
	for _, r := range b.Rules {
		w.Rules = append(w.Rules, in.rule(r))
	}
	for _, c := range b.Checks {
		var qs []WRule
		for _, q := range c.Queries {
			qs = append(qs, in.rule(q))
		}
		w.Checks = append(w.Checks, qs)
	}
	w.Symbols = append([]string{}, in.New...)
	return w
}

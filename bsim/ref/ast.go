// Package ref is the trusted reference model of bsim. It is written from the
// property statements and the public Biscuit specification and imports nothing
// from the library under test.
package ref

import (
	"encoding/hex"
	"fmt"
	"sort"
	"strconv"
	"strings"
)

// Term kinds.
const (
	KVar   = "v"
	KInt   = "i"
	KStr   = "s"
	KDate  = "d"
	KBytes = "b"
	KBool  = "t"
	KSet   = "S"
)

// Term is a Datalog term. Exactly the fields relevant to K are meaningful.
type Term struct {
	K   string `json:"k"`
	I   int64  `json:"i,omitempty"`   // KInt; KBool (1 = true)
	S   string `json:"s,omitempty"`   // KStr, KVar (name)
	D   uint64 `json:"d,omitempty"`   // KDate (seconds since epoch)
	B   string `json:"b,omitempty"`   // KBytes (hex)
	Set []Term `json:"set,omitempty"` // KSet
}

func Var(n string) Term   { return Term{K: KVar, S: n} }
func Int(i int64) Term    { return Term{K: KInt, I: i} }
func Str(s string) Term   { return Term{K: KStr, S: s} }
func Date(d uint64) Term  { return Term{K: KDate, D: d} }
func Bytes(b []byte) Term { return Term{K: KBytes, B: hex.EncodeToString(b)} }
func Bool(b bool) Term {
	if b {
		return Term{K: KBool, I: 1}
	}
	return Term{K: KBool}
}
func SetOf(ts ...Term) Term { return Term{K: KSet, Set: ts} }

func (t Term) RawBytes() []byte { b, _ := hex.DecodeString(t.B); return b }
func (t Term) IsVar() bool      { return t.K == KVar }

// Canon returns a canonical string; sets are sorted and de-duplicated so that
// two sets with the same elements have the same canonical form.
func (t Term) Canon() string {
	switch t.K {
	case KVar:
		return "$" + t.S
	case KInt:
		return strconv.FormatInt(t.I, 10)
	case KStr:
		return strconv.Quote(t.S)
	case KDate:
		return "@" + strconv.FormatUint(t.D, 10)
	case KBytes:
		return "hex:" + t.B
	case KBool:
		if t.I != 0 {
			return "true"
		}
		return "false"
	case KSet:
		el := make([]string, 0, len(t.Set))
		for _, e := range t.Set {
			el = append(el, e.Canon())
		}
		sort.Strings(el)
		out := el[:0]
		for i, e := range el {
			if i == 0 || e != el[i-1] {
				out = append(out, e)
			}
		}
		return "[" + strings.Join(out, ",") + "]"
	}
	return "?" + t.K
}

func (t Term) Equal(o Term) bool { return t.K == o.K && t.Canon() == o.Canon() }

// Pred is a predicate; with only ground terms it is a fact.
type Pred struct {
	Name  string `json:"n"`
	Terms []Term `json:"t,omitempty"`
}

func (p Pred) Canon() string {
	ts := make([]string, len(p.Terms))
	for i, t := range p.Terms {
		ts[i] = t.Canon()
	}
	return p.Name + "(" + strings.Join(ts, ",") + ")"
}

func (p Pred) Ground() bool {
	for _, t := range p.Terms {
		if t.K == KVar {
			return false
		}
	}
	return true
}

// Expr is an expression tree. Op "" means leaf (T set). Unary ops: "!",
// "()", "len". Binary ops: "<", "<=", ">", ">=", "==", "contains", "prefix",
// "suffix", "regex", "+", "-", "*", "/", "&&", "||", "inter", "union".
type Expr struct {
	Op   string `json:"op,omitempty"`
	Args []Expr `json:"a,omitempty"`
	T    *Term  `json:"t,omitempty"`
}

func Leaf(t Term) Expr             { return Expr{T: &t} }
func Un(op string, a Expr) Expr    { return Expr{Op: op, Args: []Expr{a}} }
func Bin(op string, a, b Expr) Expr { return Expr{Op: op, Args: []Expr{a, b}} }

func (e Expr) Canon() string {
	if e.Op == "" {
		if e.T == nil {
			return "<nil>"
		}
		return e.T.Canon()
	}
	as := make([]string, len(e.Args))
	for i, a := range e.Args {
		as[i] = a.Canon()
	}
	return e.Op + "(" + strings.Join(as, ",") + ")"
}

// Vars appends the variable names used in the expression.
func (e Expr) Vars(acc map[string]bool) {
	if e.Op == "" {
		if e.T != nil && e.T.K == KVar {
			acc[e.T.S] = true
		}
		return
	}
	for _, a := range e.Args {
		a.Vars(acc)
	}
}

type Rule struct {
	Head  Pred   `json:"h"`
	Body  []Pred `json:"b,omitempty"`
	Exprs []Expr `json:"e,omitempty"`
}

func (r Rule) Canon() string {
	bs := make([]string, 0, len(r.Body)+len(r.Exprs))
	for _, b := range r.Body {
		bs = append(bs, b.Canon())
	}
	for _, e := range r.Exprs {
		bs = append(bs, e.Canon())
	}
	return r.Head.Canon() + " <- " + strings.Join(bs, ", ")
}

type Check struct {
	Queries []Rule `json:"q"`
}

func (c Check) Canon() string {
	qs := make([]string, len(c.Queries))
	for i, q := range c.Queries {
		qs[i] = q.Canon()
	}
	return "check if " + strings.Join(qs, " or ")
}

type Policy struct {
	Allow   bool   `json:"allow"`
	Queries []Rule `json:"q"`
}

func (p Policy) Canon() string {
	qs := make([]string, len(p.Queries))
	for i, q := range p.Queries {
		qs[i] = q.Canon()
	}
	k := "deny if "
	if p.Allow {
		k = "allow if "
	}
	return k + strings.Join(qs, " or ")
}

// Block is the content of one token block as the caller supplied it.
type Block struct {
	Facts   []Pred  `json:"facts,omitempty"`
	Rules   []Rule  `json:"rules,omitempty"`
	Checks  []Check `json:"checks,omitempty"`
	Context string  `json:"ctx,omitempty"`
}

func (b Block) Canon() string {
	var fs, rs, cs []string
	for _, f := range b.Facts {
		fs = append(fs, f.Canon())
	}
	for _, r := range b.Rules {
		rs = append(rs, r.Canon())
	}
	for _, c := range b.Checks {
		cs = append(cs, c.Canon())
	}
	sort.Strings(fs)
	sort.Strings(rs)
	return fmt.Sprintf("facts{%s} rules{%s} checks{%s} ctx=%q", strings.Join(fs, "; "), strings.Join(rs, "; "), strings.Join(cs, "; "), b.Context)
}

func (b Block) Clone() Block {
	nb := Block{Context: b.Context}
	nb.Facts = append([]Pred(nil), b.Facts...)
	nb.Rules = append([]Rule(nil), b.Rules...)
	nb.Checks = append([]Check(nil), b.Checks...)
	return nb
}

// Authz is the content given to an authorizer.
type Authz struct {
	Facts    []Pred   `json:"facts,omitempty"`
	Rules    []Rule   `json:"rules,omitempty"`
	Checks   []Check  `json:"checks,omitempty"`
	Policies []Policy `json:"policies,omitempty"`
}

func (a Authz) Canon() string {
	b := Block{Facts: a.Facts, Rules: a.Rules, Checks: a.Checks}
	ps := make([]string, len(a.Policies))
	for i, p := range a.Policies {
		ps[i] = p.Canon()
	}
	return b.Canon() + " policies{" + strings.Join(ps, "; ") + "}"
}

// Token is the abstract token: ordered blocks (index 0 = authority).
type Token struct {
	Blocks []Block `json:"blocks"`
	Sealed bool    `json:"sealed,omitempty"`
	RootID *uint32 `json:"root_id,omitempty"`
}

func (t *Token) Clone() *Token {
	if t == nil {
		return nil
	}
	nt := &Token{Sealed: t.Sealed}
	if t.RootID != nil {
		v := *t.RootID
		nt.RootID = &v
	}
	for _, b := range t.Blocks {
		nt.Blocks = append(nt.Blocks, b.Clone())
	}
	return nt
}

func (t *Token) Canon() string {
	var sb strings.Builder
	for i, b := range t.Blocks {
		fmt.Fprintf(&sb, "#%d[%s] ", i, b.Canon())
	}
	if t.Sealed {
		sb.WriteString("sealed ")
	}
	if t.RootID != nil {
		fmt.Fprintf(&sb, "rootid=%d", *t.RootID)
	}
	return sb.String()
}

// DefaultSymbols is the default symbol table of the published schema version
// 3 (indexes 0..27); other symbols start at offset 1024.
var DefaultSymbols = []string{
	"read", "write", "resource", "operation", "right", "time", "role", "owner",
	"tenant", "namespace", "user", "team", "service", "admin", "email", "group",
	"member", "ip_address", "client", "client_ip", "domain", "path", "version",
	"cluster", "node", "hostname", "nonce", "query",
}

const SymbolOffset = 1024

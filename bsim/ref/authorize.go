package ref

import "fmt"

// Verdict classes.
const (
	VAllow     = "allow"
	VDeny      = "deny"      // first matching policy is a deny policy
	VNoMatch   = "nomatch"   // no policy matches
	VCheckFail = "checkfail" // at least one check failed (takes precedence over policy result)
	VLimit     = "limit"
	VOther     = "other"
)

// CheckID identifies a check: Block -1 = authorizer, 0 = authority, i = block i.
type CheckID struct{ Block, Index int }

func (c CheckID) String() string { return fmt.Sprintf("%d/%d", c.Block, c.Index) }

// Outcome is the reference decision with the data oracles need.
type Outcome struct {
	Class        string
	FailedChecks []CheckID
	PolicyIndex  int // index of first matching policy, -1 if none
	// sizes of the constituent evaluations, for limit reasoning
	AuthoritySize  int   // |least model| of authority-level closure
	AuthorityDepth int
	BlockSizes     []int // |least model| per later block world
	BlockDepths    []int
	Uncertain      bool // the program left the specified fragment (expression error in a rule, unbound head variable, cap hit)
	AuthorityFacts FactSet
}

// orderDependent is set when a query has both satisfying matches and matches
// whose expressions fail with an error: the specified fragment excludes that
// (errors inside queries are swallowed after partial results, so the outcome
// depends on the enumeration order) and no oracle is applied.
func queryHolds(q Rule, facts FactSet, orderDependent *bool) bool {
	r := Query(q, facts)
	if r.ExprErr && len(r.Heads) > 0 {
		*orderDependent = true
	}
	return len(r.Heads) > 0
}

func checkOK(c Check, facts FactSet, orderDependent *bool) bool {
	ok := false
	for _, q := range c.Queries {
		if queryHolds(q, facts, orderDependent) {
			ok = true
		}
	}
	return ok
}

// Authorize is the decision procedure of the specification: authority-level
// closure = authorizer facts/rules + authority block facts/rules; every check
// of the authorizer and of the authority block is evaluated there; policies
// are tried in order there; every later block's checks are evaluated in the
// closure of (authority-level closure + that block's own facts and rules).
func Authorize(tok *Token, a Authz, cap int) Outcome {
	out := Outcome{PolicyIndex: -1}
	base := FactSet{}
	var rules []Rule
	for _, f := range a.Facts {
		base.Add(f)
	}
	rules = append(rules, a.Rules...)
	if len(tok.Blocks) > 0 {
		for _, f := range tok.Blocks[0].Facts {
			base.Add(f)
		}
		rules = append(rules, tok.Blocks[0].Rules...)
	}
	m := LeastModel(base, rules, cap)
	out.AuthoritySize, out.AuthorityDepth = len(m.Facts), m.Depth
	out.AuthorityFacts = m.Facts
	if m.ExprErr || m.Unbound || m.Capped {
		out.Uncertain = true
	}
	od := &out.Uncertain
	for i, c := range a.Checks {
		if !checkOK(c, m.Facts, od) {
			out.FailedChecks = append(out.FailedChecks, CheckID{-1, i})
		}
	}
	if len(tok.Blocks) > 0 {
		for i, c := range tok.Blocks[0].Checks {
			if !checkOK(c, m.Facts, od) {
				out.FailedChecks = append(out.FailedChecks, CheckID{0, i})
			}
		}
	}
	var policyAllow bool
	for i, p := range a.Policies {
		matched := false
		for _, q := range p.Queries {
			if queryHolds(q, m.Facts, od) {
				matched = true
				break
			}
		}
		if matched {
			out.PolicyIndex, policyAllow = i, p.Allow
			break
		}
	}
	for bi := 1; bi < len(tok.Blocks); bi++ {
		b := tok.Blocks[bi]
		bw := m.Facts.Clone()
		for _, f := range b.Facts {
			bw.Add(f)
		}
		bm := LeastModel(bw, b.Rules, cap)
		out.BlockSizes = append(out.BlockSizes, len(bm.Facts))
		out.BlockDepths = append(out.BlockDepths, bm.Depth)
		if bm.ExprErr || bm.Unbound || bm.Capped {
			out.Uncertain = true
		}
		for i, c := range b.Checks {
			if !checkOK(c, bm.Facts, od) {
				out.FailedChecks = append(out.FailedChecks, CheckID{bi, i})
			}
		}
	}
	switch {
	case len(out.FailedChecks) > 0:
		out.Class = VCheckFail
	case out.PolicyIndex < 0:
		out.Class = VNoMatch
	case policyAllow:
		out.Class = VAllow
	default:
		out.Class = VDeny
	}
	return out
}

// MaxSize is the largest constituent evaluation's model size.
func (o Outcome) MaxSize() int {
	m := o.AuthoritySize
	for _, s := range o.BlockSizes {
		if s > m {
			m = s
		}
	}
	return m
}

func (o Outcome) MaxDepth() int {
	m := o.AuthorityDepth
	for _, s := range o.BlockDepths {
		if s > m {
			m = s
		}
	}
	return m
}

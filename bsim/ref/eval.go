package ref

import (
	"errors"
	"fmt"
	"math/big"
	"regexp"
	"sort"
	"strings"
)

var ErrExpr = errors.New("ref: expression error")

func exprErr(f string, a ...interface{}) error {
	return fmt.Errorf("%w: %s", ErrExpr, fmt.Sprintf(f, a...))
}

var (
	minI64 = big.NewInt(-1 << 63)
	maxI64 = new(big.Int).SetUint64(1<<63 - 1)
)

func fitInt(b *big.Int) (Term, error) {
	if b.Cmp(minI64) < 0 || b.Cmp(maxI64) > 0 {
		return Term{}, exprErr("integer overflow")
	}
	return Int(b.Int64()), nil
}

func setContains(set []Term, e Term) bool {
	for _, x := range set {
		if x.Equal(e) {
			return true
		}
	}
	return false
}

// EvalExpr evaluates an expression tree under a substitution.
func EvalExpr(e Expr, env map[string]Term) (Term, error) {
	if e.Op == "" {
		if e.T == nil {
			return Term{}, exprErr("nil leaf")
		}
		if e.T.K == KVar {
			v, ok := env[e.T.S]
			if !ok {
				return Term{}, exprErr("unbound variable %s", e.T.S)
			}
			return v, nil
		}
		return *e.T, nil
	}
	args := make([]Term, len(e.Args))
	for i, a := range e.Args {
		v, err := EvalExpr(a, env)
		if err != nil {
			return Term{}, err
		}
		args[i] = v
	}
	switch e.Op {
	case "!":
		if len(args) != 1 || args[0].K != KBool {
			return Term{}, exprErr("! on non-bool")
		}
		return Bool(args[0].I == 0), nil
	case "()":
		if len(args) != 1 {
			return Term{}, exprErr("parens arity")
		}
		return args[0], nil
	case "len":
		if len(args) != 1 {
			return Term{}, exprErr("len arity")
		}
		switch args[0].K {
		case KStr:
			return Int(int64(len(args[0].S))), nil
		case KBytes:
			return Int(int64(len(args[0].RawBytes()))), nil
		case KSet:
			return Int(int64(len(args[0].Set))), nil
		}
		return Term{}, exprErr("len on %s", args[0].K)
	}
	if len(args) != 2 {
		return Term{}, exprErr("binary arity")
	}
	l, r := args[0], args[1]
	switch e.Op {
	case "<", "<=", ">", ">=":
		if l.K != r.K || (l.K != KInt && l.K != KDate) {
			return Term{}, exprErr("ordering on %s,%s", l.K, r.K)
		}
		var c int
		if l.K == KInt {
			switch {
			case l.I < r.I:
				c = -1
			case l.I > r.I:
				c = 1
			}
		} else {
			switch {
			case l.D < r.D:
				c = -1
			case l.D > r.D:
				c = 1
			}
		}
		switch e.Op {
		case "<":
			return Bool(c < 0), nil
		case "<=":
			return Bool(c <= 0), nil
		case ">":
			return Bool(c > 0), nil
		default:
			return Bool(c >= 0), nil
		}
	case "==":
		if l.K != r.K || l.K == KVar {
			return Term{}, exprErr("equality on %s,%s", l.K, r.K)
		}
		return Bool(l.Equal(r)), nil
	case "contains":
		if l.K == KStr {
			if r.K != KStr {
				return Term{}, exprErr("string contains non-string")
			}
			return Bool(strings.Contains(l.S, r.S)), nil
		}
		if l.K != KSet {
			return Term{}, exprErr("contains on %s", l.K)
		}
		if r.K == KSet {
			for _, x := range r.Set {
				if !setContains(l.Set, x) {
					return Bool(false), nil
				}
			}
			return Bool(true), nil
		}
		if r.K == KVar {
			return Term{}, exprErr("contains variable")
		}
		return Bool(setContains(l.Set, r)), nil
	case "inter", "union":
		if l.K != KSet || r.K != KSet {
			return Term{}, exprErr("%s on non-sets", e.Op)
		}
		var out []Term
		if e.Op == "inter" {
			for _, x := range l.Set {
				if setContains(r.Set, x) {
					out = append(out, x)
				}
			}
		} else {
			out = append(out, l.Set...)
			for _, x := range r.Set {
				if !setContains(l.Set, x) {
					out = append(out, x)
				}
			}
		}
		return Term{K: KSet, Set: out}, nil
	case "prefix", "suffix", "regex":
		if l.K != KStr || r.K != KStr {
			return Term{}, exprErr("%s on non-strings", e.Op)
		}
		switch e.Op {
		case "prefix":
			return Bool(strings.HasPrefix(l.S, r.S)), nil
		case "suffix":
			return Bool(strings.HasSuffix(l.S, r.S)), nil
		}
		re, err := regexp.Compile(r.S)
		if err != nil {
			return Term{}, exprErr("bad regex")
		}
		return Bool(re.MatchString(l.S)), nil
	case "+":
		if l.K == KStr && r.K == KStr {
			return Str(l.S + r.S), nil
		}
		fallthrough
	case "-", "*", "/":
		if l.K != KInt || r.K != KInt {
			return Term{}, exprErr("arithmetic on %s,%s", l.K, r.K)
		}
		a, b := big.NewInt(l.I), big.NewInt(r.I)
		res := new(big.Int)
		switch e.Op {
		case "+":
			res.Add(a, b)
		case "-":
			res.Sub(a, b)
		case "*":
			res.Mul(a, b)
		case "/":
			if r.I == 0 {
				return Term{}, exprErr("division by zero")
			}
			res.Quo(a, b)
		}
		return fitInt(res)
	case "&&", "||":
		if l.K != KBool || r.K != KBool {
			return Term{}, exprErr("%s on non-bools", e.Op)
		}
		if e.Op == "&&" {
			return Bool(l.I != 0 && r.I != 0), nil
		}
		return Bool(l.I != 0 || r.I != 0), nil
	}
	return Term{}, exprErr("unknown op %q", e.Op)
}

// FactSet is a set of ground predicates keyed by canonical form.
type FactSet map[string]Pred

func (s FactSet) Add(p Pred) bool {
	k := p.Canon()
	if _, ok := s[k]; ok {
		return false
	}
	s[k] = p
	return true
}

func (s FactSet) Keys() []string {
	ks := make([]string, 0, len(s))
	for k := range s {
		ks = append(ks, k)
	}
	sort.Strings(ks)
	return ks
}

func (s FactSet) Clone() FactSet {
	n := make(FactSet, len(s))
	for k, v := range s {
		n[k] = v
	}
	return n
}

// byName indexes facts by predicate name and arity.
func (s FactSet) byName() map[string][]Pred {
	idx := map[string][]Pred{}
	for _, k := range s.Keys() {
		p := s[k]
		key := fmt.Sprintf("%s/%d", p.Name, len(p.Terms))
		idx[key] = append(idx[key], p)
	}
	return idx
}

// QueryResult is the outcome of matching a rule against a fact set.
type QueryResult struct {
	Heads    FactSet // head instances of every satisfying substitution
	ExprErr  bool    // some complete match made an expression fail with an error
	Unbound  bool    // some head variable is not bound by the body
	Matches  int     // number of complete body matches (before expressions)
}

// Query returns the head instances of all substitutions that match every body
// predicate consistently and make every expression true.
func Query(r Rule, facts FactSet) QueryResult {
	res := QueryResult{Heads: FactSet{}}
	idx := facts.byName()
	env := map[string]Term{}
	var rec func(i int)
	rec = func(i int) {
		if i == len(r.Body) {
			res.Matches++
			for _, e := range r.Exprs {
				v, err := EvalExpr(e, env)
				if err != nil {
					res.ExprErr = true
					return
				}
				if v.K != KBool || v.I == 0 {
					return
				}
			}
			h := Pred{Name: r.Head.Name, Terms: make([]Term, len(r.Head.Terms))}
			for j, t := range r.Head.Terms {
				if t.K == KVar {
					v, ok := env[t.S]
					if !ok {
						res.Unbound = true
						return
					}
					h.Terms[j] = v
				} else {
					h.Terms[j] = t
				}
			}
			res.Heads.Add(h)
			return
		}
		bp := r.Body[i]
		for _, f := range idx[fmt.Sprintf("%s/%d", bp.Name, len(bp.Terms))] {
			var bound []string
			ok := true
			for j, t := range bp.Terms {
				if t.K == KVar {
					if v, has := env[t.S]; has {
						if !v.Equal(f.Terms[j]) {
							ok = false
							break
						}
					} else {
						env[t.S] = f.Terms[j]
						bound = append(bound, t.S)
					}
				} else if !t.Equal(f.Terms[j]) {
					ok = false
					break
				}
			}
			if ok {
				rec(i + 1)
			}
			for _, b := range bound {
				delete(env, b)
			}
		}
	}
	if len(r.Body) > 0 && len(facts) == 0 {
		return res
	}
	rec(0)
	return res
}

// Model is the result of running a program to its least fixpoint.
type Model struct {
	Facts   FactSet
	Depth   int  // number of simultaneous (Jacobi) rounds that produced at least one new fact
	ExprErr bool // a rule's expression failed with an error on some complete match
	Unbound bool // a rule has a head variable unbound by its body (and at least one match)
	Capped  bool // gave up: model larger than cap
}

// LeastModel computes the least model by naive simultaneous iteration.
func LeastModel(base FactSet, rules []Rule, cap int) Model {
	m := Model{Facts: base.Clone()}
	for {
		var add []Pred
		for _, r := range rules {
			q := Query(r, m.Facts)
			if q.ExprErr {
				m.ExprErr = true
			}
			if q.Unbound {
				m.Unbound = true
			}
			for _, k := range q.Heads.Keys() {
				if _, ok := m.Facts[k]; !ok {
					add = append(add, q.Heads[k])
				}
			}
		}
		n := 0
		for _, p := range add {
			if m.Facts.Add(p) {
				n++
			}
		}
		if n == 0 {
			return m
		}
		m.Depth++
		if len(m.Facts) > cap {
			m.Capped = true
			return m
		}
	}
}

func FactSetOf(ps []Pred) FactSet {
	s := FactSet{}
	for _, p := range ps {
		s.Add(p)
	}
	return s
}

// Package sched is the yield scheduler of bsim: inside a testing/synctest
// bubble it keeps at most one library goroutine runnable at a time and decides
// from the plan's tape which parked goroutine proceeds next, when the fake
// clock is stalled forward, and detects goroutines stranded after a call.
package sched

import (
	"fmt"
	"hash/fnv"
	"regexp"
	"runtime"
	"sort"
	"strings"
	"sync"
	"testing"
	"testing/synctest"
	"time"

	"github.com/biscuit-auth/biscuit-go/v2/datalog"
)

// Fault is a schedule-level fault bound to a scheduler step.
type Fault struct {
	Step int    `json:"step"`
	Kind string `json:"kind"` // "stall": advance the fake clock by D ns while nobody runs
	D    int64  `json:"d"`
}

type parked struct {
	site  string
	gate  chan struct{}
	round int
	seq   int
}

type Stats struct {
	Steps       int
	Releases    int
	Stalls      int
	StallNs     int64
	IdleAdv     int
	MaxParked   int
	SiteCounts  map[string]int
	Deadlocks   int
	TapeUsed    int
	LeftBehind  int
}

type Sim struct {
	mu       sync.Mutex
	arrivals []*parked
	parked   []*parked
	round    int
	seq      int

	Tape   []uint32
	tpos   int
	Faults map[int][]Fault
	Step   int

	Stats Stats
	h     uint64 // running hash of the (site, choice) sequence
	Trace []string
	KeepTrace bool
	LazyDrain bool // do not drain left-behind goroutines at the end of a call (see Call)

	start time.Time

	// per-call observations
	StallNsInCall int64
	IdleInCall    int
	// the most recent clock stall: scheduler step at which it was injected, fake time when it ended
	LastStallStep int
	LastStallEnd  time.Time
}

func New(tape []uint32, faults []Fault) *Sim {
	s := &Sim{Tape: tape, Faults: map[int][]Fault{}}
	for _, f := range faults {
		s.Faults[f.Step] = append(s.Faults[f.Step], f)
	}
	s.Stats.SiteCounts = map[string]int{}
	s.h = 14695981039346656037
	return s
}

func (s *Sim) note(ev string) {
	hh := fnv.New64a()
	var b [8]byte
	for i := 0; i < 8; i++ {
		b[i] = byte(s.h >> (8 * i))
	}
	hh.Write(b[:])
	hh.Write([]byte(ev))
	s.h = hh.Sum64()
	if s.KeepTrace && len(s.Trace) < 20000 {
		s.Trace = append(s.Trace, ev)
	}
}

// Note lets the caller add its own events (op boundaries, results) to the
// deterministic event log.
func (s *Sim) Note(ev string) { s.note(ev) }

func (s *Sim) Hash() uint64 { return s.h }

// yield is installed as datalog.SimYield.
func (s *Sim) yield(site string) {
	p := &parked{site: site, gate: make(chan struct{})}
	s.mu.Lock()
	s.arrivals = append(s.arrivals, p)
	s.mu.Unlock()
	<-p.gate
}

func (s *Sim) merge() {
	s.mu.Lock()
	arr := s.arrivals
	s.arrivals = nil
	s.mu.Unlock()
	if len(arr) == 0 {
		return
	}
	s.round++
	// Arrivals between two quiescent points: at most the two parties of one
	// rendezvous, which park on distinct sites; several arrivals on the same
	// site are causally ordered (created one after the other by one goroutine),
	// so a stable sort by site is a deterministic order.
	sort.SliceStable(arr, func(i, j int) bool { return arr[i].site < arr[j].site })
	for _, p := range arr {
		p.round = s.round
		s.seq++
		p.seq = s.seq
		s.parked = append(s.parked, p)
	}
	if len(s.parked) > s.Stats.MaxParked {
		s.Stats.MaxParked = len(s.parked)
	}
}

func (s *Sim) next() uint32 {
	if s.tpos < len(s.Tape) {
		v := s.Tape[s.tpos]
		s.tpos++
		s.Stats.TapeUsed = s.tpos
		return v
	}
	return 0
}

// stepOnce performs one scheduling decision. It returns false when nothing
// could be done (nobody parked and idle advance is not allowed).
func (s *Sim) stepOnce(allowIdle bool) bool {
	s.Step++
	s.Stats.Steps++
	if fs := s.Faults[s.Step]; len(fs) > 0 {
		for _, f := range fs {
			if f.Kind == "stall" && f.D > 0 {
				s.note(fmt.Sprintf("stall@%d:%d", s.Step, f.D))
				s.Stats.Stalls++
				s.Stats.StallNs += f.D
				s.StallNsInCall += f.D
				time.Sleep(time.Duration(f.D))
				s.LastStallStep, s.LastStallEnd = s.Step, time.Now()
			}
		}
		return true
	}
	if len(s.parked) == 0 {
		if !allowIdle {
			return false
		}
		// everybody is blocked and nobody is parked at a yield: only a timer
		// can make progress. Let the fake clock run.
		s.note(fmt.Sprintf("idle@%d", s.Step))
		s.Stats.IdleAdv++
		s.IdleInCall++
		time.Sleep(time.Hour)
		return true
	}
	i := int(s.next() % uint32(len(s.parked)))
	p := s.parked[i]
	s.parked = append(s.parked[:i], s.parked[i+1:]...)
	s.note(fmt.Sprintf("run@%d:%s#%d/%d", s.Step, p.site, i, len(s.parked)+1))
	s.Stats.Releases++
	s.Stats.SiteCounts[p.site]++
	close(p.gate)
	return true
}

// CallResult describes one scheduled call.
type CallResult struct {
	Panic      string   // recovered panic on the task goroutine ("" if none)
	Deadlock   bool     // the task never returned (blocked forever even after the clock ran)
	Stranded   []string // library goroutines still blocked after drain: top datalog frames
	StallNs    int64
	Idle       int
	StepsFrom  int
	StepsTo    int
	SimStartNs int64
	SimEndNs   int64
}

// Call runs f on a fresh task goroutine under the scheduler, then drains every
// library goroutine still parked and takes a goroutine census.
func (s *Sim) Call(f func()) CallResult {
	res := CallResult{StepsFrom: s.Step, SimStartNs: int64(time.Since(s.start))}
	s.StallNsInCall, s.IdleInCall = 0, 0
	done := make(chan struct{})
	var pmsg string
	go func() {
		defer close(done)
		defer func() {
			if r := recover(); r != nil {
				pmsg = fmt.Sprintf("%v\n%s", r, trimStack(stack()))
			}
		}()
		f()
	}()
	idleStreak := 0
	for {
		synctest.Wait()
		s.merge()
		fin := false
		select {
		case <-done:
			fin = true
		default:
		}
		if fin {
			break
		}
		if len(s.parked) == 0 {
			idleStreak++
			if idleStreak > 3 {
				res.Deadlock = true
				s.Stats.Deadlocks++
				s.note("deadlock")
				break
			}
		} else {
			idleStreak = 0
		}
		s.stepOnce(true)
	}
	res.SimEndNs = int64(time.Since(s.start))
	if s.LazyDrain {
		// goroutines the call left behind (a worker that outlived a timeout) stay parked and
		// are scheduled, tape permitting, in the middle of later calls: work that continues
		// after the call has returned. Finish() drains and takes the census at the end.
		s.Stats.LeftBehind += len(s.parked)
		res.Panic = pmsg
		res.StallNs, res.Idle = s.StallNsInCall, s.IdleInCall
		res.StepsTo = s.Step
		return res
	}
	res.Stranded = s.drainAndCensus()
	res.Panic = pmsg
	res.StallNs, res.Idle = s.StallNsInCall, s.IdleInCall
	res.StepsTo = s.Step
	return res
}

// drainAndCensus releases whatever is still parked until nothing is; whatever
// library goroutine is left then is blocked on something nobody will ever serve
// (the library has no timer other than Run's own deadline).
func (s *Sim) drainAndCensus() []string {
	for guard := 0; guard < 1000000; guard++ {
		synctest.Wait()
		s.merge()
		if len(s.parked) == 0 {
			break
		}
		s.stepOnce(false)
	}
	return census()
}

// Finish drains goroutines left behind by lazily drained calls and returns the stranded ones.
func (s *Sim) Finish() []string {
	if !s.LazyDrain {
		return nil
	}
	return s.drainAndCensus()
}

func stack() string {
	buf := make([]byte, 1<<16)
	n := runtime.Stack(buf, false)
	return string(buf[:n])
}

var reFrame = regexp.MustCompile(`(?m)^(\S+)\(.*\)$|^(\S+)\(\.\.\.\)$`)

// trimStack keeps the function names of the first library frames.
func trimStack(st string) string {
	var out []string
	for _, ln := range strings.Split(st, "\n") {
		if strings.HasPrefix(ln, "\t") || ln == "" || strings.HasPrefix(ln, "goroutine ") {
			continue
		}
		fn := ln
		if i := strings.LastIndex(fn, "("); i > 0 {
			fn = fn[:i]
		}
		if strings.HasPrefix(fn, "runtime.") || strings.HasPrefix(fn, "panic") || strings.Contains(fn, "bsim/sched.") {
			continue
		}
		out = append(out, fn)
		if len(out) >= 8 {
			break
		}
	}
	return strings.Join(out, " < ")
}

var staleG = map[string]bool{}
var staleMu sync.Mutex
var censusBuf []byte

// census returns, for each goroutine not seen stranded before whose stack has
// a frame in the library's datalog package, its first such frame.
func census() []string {
	staleMu.Lock()
	defer staleMu.Unlock()
	if censusBuf == nil {
		censusBuf = make([]byte, 1<<18)
	}
	var buf []byte
	for {
		n := runtime.Stack(censusBuf, true)
		if n < len(censusBuf) {
			buf = censusBuf[:n]
			break
		}
		censusBuf = make([]byte, 2*len(censusBuf))
	}
	var out []string
	for _, g := range strings.Split(string(buf), "\n\n") {
		if !strings.Contains(g, "biscuit-go/v2/datalog.") {
			continue
		}
		lines := strings.Split(g, "\n")
		id := lines[0]
		if i := strings.Index(id, " ["); i > 0 {
			id = id[:i]
		}
		if staleG[id] {
			continue
		}
		staleG[id] = true
		top := ""
		for _, ln := range lines[1:] {
			if strings.Contains(ln, "biscuit-go/v2/datalog.") && !strings.HasPrefix(ln, "\t") && !strings.HasPrefix(ln, "created by") {
				top = ln
				if i := strings.LastIndex(top, "("); i > 0 {
					top = top[:i]
				}
				top = strings.TrimPrefix(top, "github.com/biscuit-auth/biscuit-go/v2/")
				break
			}
		}
		state := ""
		if i := strings.Index(lines[0], "["); i > 0 {
			state = strings.TrimSuffix(lines[0][i:], ":")
		}
		if j := strings.Index(state, ","); j > 0 {
			state = state[:j] + "]"
		}
		out = append(out, top+" "+state)
	}
	sort.Strings(out)
	return out
}

// Bubble runs body inside a synctest bubble with the scheduler installed and
// returns a non-empty string if the bubble ended with blocked goroutines left
// behind (synctest's own deadlock detector) or the body panicked.
func (s *Sim) Bubble(body func()) (bubbleErr string, simNs int64) {
	defer func() {
		datalog.SimYield = nil
		if r := recover(); r != nil {
			bubbleErr = fmt.Sprintf("%v", r)
		}
	}()
	datalog.SimYield = s.yield
	synctest.Test(&testing.T{}, func(t *testing.T) {
		s.start = time.Now()
		body()
		simNs = int64(time.Since(s.start))
	})
	return
}

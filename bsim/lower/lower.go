// Package lower converts the reference AST into the library's builder-level
// and datalog-level values, and library results back into canonical form.
package lower

import (
	"fmt"
	"time"

	biscuit "github.com/biscuit-auth/biscuit-go/v2"
	"github.com/biscuit-auth/biscuit-go/v2/datalog"

	"bsim/ref"
)

func Term(t ref.Term) biscuit.Term {
	switch t.K {
	case ref.KVar:
		return biscuit.Variable(t.S)
	case ref.KInt:
		return biscuit.Integer(t.I)
	case ref.KStr:
		return biscuit.String(t.S)
	case ref.KDate:
		return biscuit.Date(time.Unix(int64(t.D), 0).UTC())
	case ref.KBytes:
		return biscuit.Bytes(t.RawBytes())
	case ref.KBool:
		return biscuit.Bool(t.I != 0)
	case ref.KSet:
		s := make(biscuit.Set, 0, len(t.Set))
		for _, e := range t.Set {
			s = append(s, Term(e))
		}
		return s
	}
	panic("lower: bad term kind " + t.K)
}

func Pred(p ref.Pred) biscuit.Predicate {
	out := biscuit.Predicate{Name: p.Name}
	for _, t := range p.Terms {
		out.IDs = append(out.IDs, Term(t))
	}
	return out
}

func Fact(p ref.Pred) biscuit.Fact { return biscuit.Fact{Predicate: Pred(p)} }

var unOps = map[string]biscuit.UnaryOp{"!": biscuit.UnaryNegate, "()": biscuit.UnaryParens, "len": biscuit.UnaryLength}
var binOps = map[string]biscuit.BinaryOp{
	"<": biscuit.BinaryLessThan, "<=": biscuit.BinaryLessOrEqual, ">": biscuit.BinaryGreaterThan, ">=": biscuit.BinaryGreaterOrEqual,
	"==": biscuit.BinaryEqual, "contains": biscuit.BinaryContains, "prefix": biscuit.BinaryPrefix, "suffix": biscuit.BinarySuffix,
	"regex": biscuit.BinaryRegex, "+": biscuit.BinaryAdd, "-": biscuit.BinarySub, "*": biscuit.BinaryMul, "/": biscuit.BinaryDiv,
	"&&": biscuit.BinaryAnd, "||": biscuit.BinaryOr, "inter": biscuit.BinaryIntersection, "union": biscuit.BinaryUnion,
}

func exprOps(e ref.Expr, acc *biscuit.Expression) {
	if e.Op == "" {
		*acc = append(*acc, biscuit.Value{Term: Term(*e.T)})
		return
	}
	for _, a := range e.Args {
		exprOps(a, acc)
	}
	if len(e.Args) == 1 {
		*acc = append(*acc, unOps[e.Op])
	} else {
		*acc = append(*acc, binOps[e.Op])
	}
}

func Expr(e ref.Expr) biscuit.Expression {
	var out biscuit.Expression
	exprOps(e, &out)
	return out
}

func Rule(r ref.Rule) biscuit.Rule {
	out := biscuit.Rule{Head: Pred(r.Head)}
	for _, b := range r.Body {
		out.Body = append(out.Body, Pred(b))
	}
	for _, e := range r.Exprs {
		out.Expressions = append(out.Expressions, Expr(e))
	}
	return out
}

func Check(c ref.Check) biscuit.Check {
	out := biscuit.Check{}
	for _, q := range c.Queries {
		out.Queries = append(out.Queries, Rule(q))
	}
	return out
}

func Policy(p ref.Policy) biscuit.Policy {
	out := biscuit.Policy{Kind: biscuit.PolicyKindDeny}
	if p.Allow {
		out.Kind = biscuit.PolicyKindAllow
	}
	for _, q := range p.Queries {
		out.Queries = append(out.Queries, Rule(q))
	}
	return out
}

// ---- back conversion

func BackTerm(t biscuit.Term) (ref.Term, error) {
	switch v := t.(type) {
	case biscuit.Variable:
		return ref.Var(string(v)), nil
	case biscuit.Integer:
		return ref.Int(int64(v)), nil
	case biscuit.String:
		return ref.Str(string(v)), nil
	case biscuit.Date:
		return ref.Date(uint64(time.Time(v).Unix())), nil
	case biscuit.Bytes:
		return ref.Bytes([]byte(v)), nil
	case biscuit.Bool:
		return ref.Bool(bool(v)), nil
	case biscuit.Set:
		out := ref.Term{K: ref.KSet}
		for _, e := range v {
			et, err := BackTerm(e)
			if err != nil {
				return ref.Term{}, err
			}
			out.Set = append(out.Set, et)
		}
		return out, nil
	}
	return ref.Term{}, fmt.Errorf("lower: unknown term type %T", t)
}

func BackFact(f biscuit.Fact) (ref.Pred, error) {
	out := ref.Pred{Name: f.Name}
	for _, t := range f.IDs {
		rt, err := BackTerm(t)
		if err != nil {
			return out, err
		}
		out.Terms = append(out.Terms, rt)
	}
	return out, nil
}

// ---- datalog level

// DL lowers to the datalog package's values through a symbol table, interning
// strings in the order of use (like a caller of the datalog package would).
type DL struct{ Syms *datalog.SymbolTable }

func (d DL) Term(t ref.Term) datalog.Term {
	switch t.K {
	case ref.KVar:
		return datalog.Variable(d.Syms.Insert(t.S))
	case ref.KInt:
		return datalog.Integer(t.I)
	case ref.KStr:
		return d.Syms.Insert(t.S)
	case ref.KDate:
		return datalog.Date(t.D)
	case ref.KBytes:
		return datalog.Bytes(t.RawBytes())
	case ref.KBool:
		return datalog.Bool(t.I != 0)
	case ref.KSet:
		s := make(datalog.Set, 0, len(t.Set))
		for _, e := range t.Set {
			s = append(s, d.Term(e))
		}
		return s
	}
	panic("lower: bad term kind")
}

func (d DL) Pred(p ref.Pred) datalog.Predicate {
	out := datalog.Predicate{Name: d.Syms.Insert(p.Name), Terms: []datalog.Term{}}
	for _, t := range p.Terms {
		out.Terms = append(out.Terms, d.Term(t))
	}
	return out
}

var dlUn = map[string]datalog.UnaryOpFunc{"!": datalog.Negate{}, "()": datalog.Parens{}, "len": datalog.Length{}}
var dlBin = map[string]datalog.BinaryOpFunc{
	"<": datalog.LessThan{}, "<=": datalog.LessOrEqual{}, ">": datalog.GreaterThan{}, ">=": datalog.GreaterOrEqual{},
	"==": datalog.Equal{}, "contains": datalog.Contains{}, "prefix": datalog.Prefix{}, "suffix": datalog.Suffix{},
	"regex": datalog.Regex{}, "+": datalog.Add{}, "-": datalog.Sub{}, "*": datalog.Mul{}, "/": datalog.Div{},
	"&&": datalog.And{}, "||": datalog.Or{}, "inter": datalog.Intersection{}, "union": datalog.Union{},
}

func (d DL) exprOps(e ref.Expr, acc *datalog.Expression) {
	if e.Op == "" {
		*acc = append(*acc, datalog.Value{ID: d.Term(*e.T)})
		return
	}
	for _, a := range e.Args {
		d.exprOps(a, acc)
	}
	if len(e.Args) == 1 {
		*acc = append(*acc, datalog.UnaryOp{UnaryOpFunc: dlUn[e.Op]})
	} else {
		*acc = append(*acc, datalog.BinaryOp{BinaryOpFunc: dlBin[e.Op]})
	}
}

func (d DL) Rule(r ref.Rule) datalog.Rule {
	out := datalog.Rule{Head: d.Pred(r.Head)}
	for _, b := range r.Body {
		out.Body = append(out.Body, d.Pred(b))
	}
	for _, e := range r.Exprs {
		var ops datalog.Expression
		d.exprOps(e, &ops)
		out.Expressions = append(out.Expressions, ops)
	}
	return out
}

func (d DL) BackTerm(t datalog.Term) ref.Term {
	switch v := t.(type) {
	case datalog.Variable:
		return ref.Var(d.Syms.Var(v))
	case datalog.Integer:
		return ref.Int(int64(v))
	case datalog.String:
		return ref.Str(d.Syms.Str(v))
	case datalog.Date:
		return ref.Date(uint64(v))
	case datalog.Bytes:
		return ref.Bytes([]byte(v))
	case datalog.Bool:
		return ref.Bool(bool(v))
	case datalog.Set:
		out := ref.Term{K: ref.KSet}
		for _, e := range v {
			out.Set = append(out.Set, d.BackTerm(e))
		}
		return out
	}
	return ref.Term{K: "?"}
}

func (d DL) BackFact(f datalog.Fact) ref.Pred {
	out := ref.Pred{Name: d.Syms.Str(f.Name)}
	for _, t := range f.Terms {
		out.Terms = append(out.Terms, d.BackTerm(t))
	}
	return out
}

func (d DL) BackFacts(fs *datalog.FactSet) ref.FactSet {
	out := ref.FactSet{}
	for _, f := range *fs {
		out.Add(d.BackFact(f))
	}
	return out
}

package lower

import (
	"fmt"

	biscuit "github.com/biscuit-auth/biscuit-go/v2"

	"bsim/ref"
)

var unNames = map[biscuit.UnaryOp]string{biscuit.UnaryNegate: "!", biscuit.UnaryParens: "()", biscuit.UnaryLength: "len"}
var binNames = map[biscuit.BinaryOp]string{}

func init() {
	for k, v := range binOps {
		binNames[v] = k
	}
}

// BackExpr converts a builder-level op list (RPN) into an expression tree.
func BackExpr(e biscuit.Expression) (ref.Expr, error) {
	var st []ref.Expr
	for _, op := range e {
		switch o := op.(type) {
		case biscuit.Value:
			t, err := BackTerm(o.Term)
			if err != nil {
				return ref.Expr{}, err
			}
			st = append(st, ref.Leaf(t))
		case biscuit.UnaryOp:
			if len(st) < 1 {
				return ref.Expr{}, fmt.Errorf("unary underflow")
			}
			st[len(st)-1] = ref.Un(unNames[o], st[len(st)-1])
		case biscuit.BinaryOp:
			if len(st) < 2 {
				return ref.Expr{}, fmt.Errorf("binary underflow")
			}
			x := ref.Bin(binNames[o], st[len(st)-2], st[len(st)-1])
			st = append(st[:len(st)-2], x)
		default:
			return ref.Expr{}, fmt.Errorf("unknown op %T", op)
		}
	}
	if len(st) != 1 {
		return ref.Expr{}, fmt.Errorf("ill-formed expression")
	}
	return st[0], nil
}

func BackPred(p biscuit.Predicate) (ref.Pred, error) {
	out := ref.Pred{Name: p.Name}
	for _, t := range p.IDs {
		rt, err := BackTerm(t)
		if err != nil {
			return out, err
		}
		out.Terms = append(out.Terms, rt)
	}
	return out, nil
}

func BackRule(r biscuit.Rule) (ref.Rule, error) {
	h, err := BackPred(r.Head)
	if err != nil {
		return ref.Rule{}, err
	}
	out := ref.Rule{Head: h}
	for _, b := range r.Body {
		p, err := BackPred(b)
		if err != nil {
			return out, err
		}
		out.Body = append(out.Body, p)
	}
	for _, e := range r.Expressions {
		x, err := BackExpr(e)
		if err != nil {
			return out, err
		}
		out.Exprs = append(out.Exprs, x)
	}
	return out, nil
}

func BackCheck(c biscuit.Check) (ref.Check, error) {
	var out ref.Check
	for _, q := range c.Queries {
		r, err := BackRule(q)
		if err != nil {
			return out, err
		}
		out.Queries = append(out.Queries, r)
	}
	return out, nil
}

func BackBlock(b biscuit.ParsedBlock) (ref.Block, error) {
	var out ref.Block
	for _, f := range b.Facts {
		p, err := BackPred(f.Predicate)
		if err != nil {
			return out, err
		}
		out.Facts = append(out.Facts, p)
	}
	for _, r := range b.Rules {
		x, err := BackRule(r)
		if err != nil {
			return out, err
		}
		out.Rules = append(out.Rules, x)
	}
	for _, c := range b.Checks {
		x, err := BackCheck(c)
		if err != nil {
			return out, err
		}
		out.Checks = append(out.Checks, x)
	}
	return out, nil
}

func BackAuthorizer(a biscuit.ParsedAuthorizer) (ref.Authz, error) {
	b, err := BackBlock(a.Block)
	if err != nil {
		return ref.Authz{}, err
	}
	out := ref.Authz{Facts: b.Facts, Rules: b.Rules, Checks: b.Checks}
	for _, p := range a.Policies {
		np := ref.Policy{Allow: p.Kind == biscuit.PolicyKindAllow}
		for _, q := range p.Queries {
			r, err := BackRule(q)
			if err != nil {
				return out, err
			}
			np.Queries = append(np.Queries, r)
		}
		out.Policies = append(out.Policies, np)
	}
	return out, nil
}

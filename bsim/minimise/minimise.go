// Package minimise shrinks a failing plan while the same violation class persists.
package minimise

import (
	"bsim/ref"
	"bsim/vm"
)

type Runner func(*vm.Plan) *vm.Result

// Same reports whether res contains a violation of the wanted class.
func Same(res *vm.Result, key, sig string) bool {
	if res == nil {
		return false
	}
	for _, v := range res.Violations {
		if v.Key() == key && (sig == "" || v.Sig == sig) {
			return true
		}
	}
	return false
}

type state struct {
	run    Runner
	key    string
	sig    string
	budget int
	best   *vm.Plan
}

func (s *state) try(c *vm.Plan) bool {
	if s.budget <= 0 {
		return false
	}
	s.budget--
	if Same(s.run(c), s.key, s.sig) {
		s.best = c
		return true
	}
	return false
}

// Minimise returns a plan that still fails with the same class (key = prop/invariant; sig
// additionally pins the signature for crashes), using at most budget candidate runs.
func Minimise(p *vm.Plan, key, sig string, run Runner, budget int) (*vm.Plan, int) {
	s := &state{run: run, key: key, sig: sig, budget: budget, best: p.Clone()}
	start := budget
	// 1. drop operations: halves, then single ops from the end
	for chunk := len(s.best.Ops) / 2; chunk >= 1; chunk /= 2 {
		for i := len(s.best.Ops) - chunk; i >= 0; i -= chunk {
			if i+chunk > len(s.best.Ops) {
				continue
			}
			c := s.best.Clone()
			c.Ops = append(c.Ops[:i:i], c.Ops[i+chunk:]...)
			if len(c.Ops) == 0 {
				continue
			}
			s.try(c)
		}
	}
	// 2. drop faults
	for i := len(s.best.Faults) - 1; i >= 0; i-- {
		c := s.best.Clone()
		c.Faults = append(c.Faults[:i:i], c.Faults[i+1:]...)
		s.try(c)
	}
	// 3. simplify the tape
	if len(s.best.Tape) > 0 {
		c := s.best.Clone()
		c.Tape = nil
		if !s.try(c) {
			for n := len(s.best.Tape) / 2; n >= 1; n /= 2 {
				c := s.best.Clone()
				c.Tape = c.Tape[:n]
				if !s.try(c) {
					break
				}
			}
		}
	}
	if len(s.best.Order) > 2 {
		for n := len(s.best.Order) / 2; n >= 2; n /= 2 {
			c := s.best.Clone()
			c.Order = c.Order[:n]
			if !s.try(c) {
				break
			}
		}
	}
	// 4. shrink content of every op
	for oi := range s.best.Ops {
		s.shrinkOp(oi)
	}
	// 5. smaller stall durations are not tried: the durations are already boundary values
	return s.best, start - s.budget
}

func (s *state) shrinkOp(oi int) {
	if s.best.Ops[oi].Name != "" {
		return // twin / replica operations must keep identical inputs
	}
	// mutations
	for i := len(s.best.Ops[oi].Muts) - 1; i >= 0 && len(s.best.Ops[oi].Muts) > 1; i-- {
		c := s.best.Clone()
		c.Ops[oi].Muts = append(c.Ops[oi].Muts[:i:i], c.Ops[oi].Muts[i+1:]...)
		s.try(c)
	}
	// task scripts (C19)
	for ti := range s.best.Ops[oi].Tasks {
		for i := len(s.best.Ops[oi].Tasks[ti]) - 1; i >= 0; i-- {
			if i >= len(s.best.Ops[oi].Tasks[ti]) {
				continue
			}
			c := s.best.Clone()
			t := c.Ops[oi].Tasks[ti]
			c.Ops[oi].Tasks[ti] = append(t[:i:i], t[i+1:]...)
			s.try(c)
		}
	}
	if s.best.Ops[oi].Perm != nil {
		c := s.best.Clone()
		c.Ops[oi].Perm = nil
		s.try(c)
	}
	if len(s.best.Ops[oi].Qs) > 0 {
		for i := len(s.best.Ops[oi].Qs) - 1; i >= 0; i-- {
			c := s.best.Clone()
			c.Ops[oi].Qs = append(c.Ops[oi].Qs[:i:i], c.Ops[oi].Qs[i+1:]...)
			s.try(c)
		}
	}
	if s.best.Ops[oi].Blk != nil {
		shrinkList(s, func(p *vm.Plan) *[]ref.Pred { return &p.Ops[oi].Blk.Facts })
		shrinkList(s, func(p *vm.Plan) *[]ref.Rule { return &p.Ops[oi].Blk.Rules })
		shrinkList(s, func(p *vm.Plan) *[]ref.Check { return &p.Ops[oi].Blk.Checks })
		for ri := range s.best.Ops[oi].Blk.Rules {
			ri := ri
			shrinkList(s, func(p *vm.Plan) *[]ref.Expr { return &p.Ops[oi].Blk.Rules[ri].Exprs })
		}
	}
	if s.best.Ops[oi].Az != nil {
		shrinkList(s, func(p *vm.Plan) *[]ref.Pred { return &p.Ops[oi].Az.Facts })
		shrinkList(s, func(p *vm.Plan) *[]ref.Rule { return &p.Ops[oi].Az.Rules })
		shrinkList(s, func(p *vm.Plan) *[]ref.Check { return &p.Ops[oi].Az.Checks })
		shrinkList(s, func(p *vm.Plan) *[]ref.Policy { return &p.Ops[oi].Az.Policies })
	}
}

func shrinkList[T any](s *state, get func(*vm.Plan) *[]T) {
	if s.budget <= 0 {
		return
	}
	// all at once first
	if n := len(*get(s.best)); n > 1 {
		c := s.best.Clone()
		*get(c) = nil
		if s.try(c) {
			return
		}
	}
	for i := len(*get(s.best)) - 1; i >= 0; i-- {
		if i >= len(*get(s.best)) {
			continue
		}
		c := s.best.Clone()
		l := get(c)
		*l = append((*l)[:i:i], (*l)[i+1:]...)
		s.try(c)
	}
}

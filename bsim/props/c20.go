package props

import (
	"encoding/hex"
	"math/rand"

	"bsim/gen"
	"bsim/ref"
	"bsim/vm"
)

var c20Ops = []string{"builder", "new", "append"}
var c20Fails = []string{"err", "eof", "ueof", "terr"}

// c20Script delivers k bytes in the given chunking and then fails (k<32) or keeps delivering (k>=32).
func c20Script(k, chunking int, fail string) []vm.ReadStep {
	var s []vm.ReadStep
	switch chunking {
	case 0: // all at once
		if k > 0 {
			s = append(s, vm.ReadStep{Kind: "short", N: k})
		}
	case 1: // byte by byte
		for i := 0; i < k; i++ {
			s = append(s, vm.ReadStep{Kind: "short", N: 1})
		}
	case 2, 4: // two halves (4: through the process-wide default source, the caller supplying none)
		if k/2 > 0 {
			s = append(s, vm.ReadStep{Kind: "short", N: k / 2})
		}
		if k-k/2 > 0 {
			s = append(s, vm.ReadStep{Kind: "short", N: k - k/2})
		}
	default: // interleaved (0, nil) reads
		s = append(s, vm.ReadStep{Kind: "zero"})
		if k > 0 {
			s = append(s, vm.ReadStep{Kind: "short", N: k}, vm.ReadStep{Kind: "zero"})
		}
	}
	if k < 32 {
		s = append(s, vm.ReadStep{Kind: fail})
	}
	return s
}

const c20Enum = 3 * 4 * 33 * 5 // ops x failure kinds (error, EOF, ErrUnexpectedEOF, an error that calls itself temporary) x k in [0,32] x deliveries (4 chunkings of a supplied source + the default source)

// injectEntropyFaults makes the entropy source of some drawing operations of an
// existing history fail after k < 32 bytes.
func injectEntropyFaults(r *rand.Rand, p *vm.Plan) {
	n := 0
	for i := range p.Ops {
		op := &p.Ops[i]
		if op.Ent == nil || r.Intn(4) != 0 {
			continue
		}
		stream := make([]byte, 40)
		r.Read(stream)
		op.Ent = &vm.Entropy{Bytes: hex.EncodeToString(stream), Script: c20Script(r.Intn(32), r.Intn(4), c20Fails[r.Intn(4)])}
		n++
	}
	p.Note = "history with entropy faults"
}

// genC20Special: sources with a history. (a) A source that replays the seed of an earlier
// operation of the same chain and dies right after it; (b) one token builder, built several times
// from one long source that dies in the middle of a later draw and stays dead.
func genC20Special(r *rand.Rand) *vm.Plan {
	g := gen.New(r)
	b := newPB(r)
	key := b.key(false)
	stream := func(n int) []byte { s := make([]byte, n); r.Read(s); return s }
	if r.Intn(2) == 0 {
		first := stream(32)
		t := b.add(vm.Op{K: "build", A: key, Blk: blkp(g.Block(2, 1, 1)), Ent: &vm.Entropy{Bytes: hex.EncodeToString(first)}, Out: b.slot()})
		if r.Intn(2) == 0 {
			t = b.attenuate(t, g.Block(1, 1, 1))
		}
		// the same 32 bytes again, then the source fails
		replay := append(append([]byte{}, first...), stream(16)...)
		b.add(vm.Op{K: "attenuate", A: t, Blk: blkp(g.Block(2, 1, 1)), Ent: &vm.Entropy{Bytes: hex.EncodeToString(replay), Script: []vm.ReadStep{{Kind: "all"}, {Kind: c20Fails[r.Intn(4)]}}}, Out: b.slot()})
		b.p.Note = "replayed seed then failure"
		return b.p
	}
	good := 1 + r.Intn(5)
	k := r.Intn(32)
	ent := &vm.Entropy{Bytes: hex.EncodeToString(stream(32*good + k + 64))}
	for i := 0; i < good; i++ {
		ent.Script = append(ent.Script, vm.ReadStep{Kind: "all"})
	}
	ent.Script = append(ent.Script, c20Script(k, r.Intn(4), c20Fails[r.Intn(4)])...)
	var rid *uint32
	if r.Intn(2) == 0 {
		rid = u32p(uint32(r.Intn(3)))
	}
	bld := b.add(vm.Op{K: "bld", A: key, Ent: ent, RootID: rid, Out: b.slot()})
	b.add(vm.Op{K: "bldadd", A: bld, Blk: blkp(g.Block(2, 1, 1))})
	for i := 0; i < good+2+r.Intn(2); i++ {
		if r.Intn(3) == 0 {
			b.add(vm.Op{K: "bldadd", A: bld, Blk: blkp(g.Block(1, 0, 0))})
		}
		b.add(vm.Op{K: "bldbuild", A: bld, Out: b.slot()})
	}
	b.p.Note = "one builder, one long source dying mid-way"
	return b.p
}

func genC20(r *rand.Rand, run int, tier string) *vm.Plan {
	if run >= c20Enum && r.Intn(2) == 0 {
		// exploration tier: entropy faults sprinkled into multi-party / family histories; invariant:
		// a failed draw emits no token, alters no existing object, and later operations still work
		var p *vm.Plan
		if r.Intn(2) == 0 {
			p = genC08(r, run, tier)
		} else {
			p = genC17(r, run, tier)
		}
		injectEntropyFaults(r, p)
		return p
	}
	if run >= c20Enum && r.Intn(6) == 0 {
		return genC20Special(r)
	}
	g := gen.New(r)
	b := newPB(r)
	var opk, fail string
	var k, chunking int
	if run < c20Enum {
		x := run
		chunking = x % 5
		x /= 5
		k = x % 33
		x /= 33
		fail = c20Fails[x%4]
		x /= 4
		opk = c20Ops[x%3]
		b.p.Note = "enum"
	} else {
		opk, fail, k, chunking = c20Ops[r.Intn(3)], c20Fails[r.Intn(4)], r.Intn(34), r.Intn(5)
		b.p.Note = "random"
	}
	stream := make([]byte, 40)
	r.Read(stream)
	ent := &vm.Entropy{Bytes: hex.EncodeToString(stream), Script: c20Script(k, chunking, fail), Default: chunking == 4}
	key := b.key(false)
	blk := g.Block(3, 1, 1)
	var parent int
	switch opk {
	case "builder":
		var rid *uint32
		if (k+chunking)%2 == 0 { // the builder is also given a root key id in half of the cases
			rid = u32p(uint32(k))
		}
		b.add(vm.Op{K: "build", A: key, Blk: &blk, Ent: ent, RootID: rid, Out: b.slot()})
	case "new":
		b.add(vm.Op{K: "build", Via: "new", A: key, Blk: &blk, Ent: ent, Out: b.slot()})
	default:
		parent = b.build(key, g.Block(3, 1, 1), nil)
		if b.p.Note == "random" && r.Intn(2) == 0 {
			parent = b.attenuate(parent, g.Block(2, 1, 1))
		}
		if r.Intn(2) == 0 {
			bb := b.add(vm.Op{K: "bb", A: parent, Out: b.slot()})
			b.add(vm.Op{K: "bbadd", A: bb, Blk: &blk})
			bk := b.add(vm.Op{K: "bbbuild", A: bb, Out: b.slot()})
			b.add(vm.Op{K: "append", A: parent, B: bk, Ent: ent, Out: b.slot()})
		} else {
			b.add(vm.Op{K: "attenuate", A: parent, Blk: &blk, Ent: ent, Out: b.slot()})
		}
	}
	failedOut := b.next - 1
	// after a failure the party retries with a healthy source and must succeed; the parent must be unaltered
	retry := b.p.Ops[len(b.p.Ops)-1]
	retry.Ent = entropy(r)
	retry.Out = b.slot()
	b.add(retry)
	if parent > 0 {
		b.add(vm.Op{K: "print", A: parent})
	}
	// seal draws nothing (given a reader that fails on first touch)
	b.add(vm.Op{K: "seal", A: retry.Out, Out: b.slot()})
	_ = failedOut
	_ = ref.Block{}
	return b.p
}

func init() {
	register(&Spec{
		ID: "C20", Level: "fault_enumeration", Quick: c20Enum + 300, Thorough: c20Enum + 60000,
		Rule: "fault enumeration: every operation that draws randomness (Builder.Build with WithRNG, biscuit.New(rng,..), Append(rng,..)) x failure kind (error, EOF, ErrUnexpectedEOF, a persistent error whose Temporary() and Timeout() say true) x EVERY k in [0,32] bytes delivered before the failure (k=32: no failure) x 5 deliveries of the prefix (a supplied source read at once, byte by byte, in two halves, with interleaved (0,nil) reads; and NO supplied source, the simulated process-wide default crypto/rand.Reader being read instead) = 1980 cases, each followed by a retry with a healthy source and a Seal with a source that fails on first touch; then random cases over the same space with longer histories. non-trivial = the failure actually fired during the draw or a token was built and its next secret checked (distinct by plan hash)",
		Gen: genC20,
		Oracles: func(m *vm.VM) []vm.Oracle {
			return []vm.Oracle{vm.Common{Prop: "C20"}, vm.EntropyOracle{}, vm.ImmutOracle{Prop: "C08"}}
		},
		Nontrivial: func(res *vm.Result) bool {
			return res.Probes["entropy_failure_during_draw"] > 0 || res.Probes["token_with_healthy_entropy"] > 0 || res.Faults["entropy_failure"] > 0
		},
		ExtraCoverage: map[string]interface{}{"enumerated_cases": c20Enum, "exhaustive_in": "k = number of entropy bytes delivered before the failure (0..32), for each drawing operation, failure kind and delivery; runs 0..1979 of every check"},
		Real:          realAll, Simulated: []string{simAll[2]}, Assumptions: assumeAll[1:2],
	})
}

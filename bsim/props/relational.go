package props

import (
	"fmt"
	"math/rand"

	"bsim/gen"
	"bsim/ref"
	"bsim/vm"
)

var bigDur = &vm.Lim{MaxDurNs: 1e9}

// ---- C02: attenuation can only restrict

func genC02(r *rand.Rand, run int, tier string) *vm.Plan {
	h := newHist(r, 1, false)
	g := h.g
	key := h.issuers[0]
	auth := g.BlockFor(nil, 4, 2, 1)
	if r.Intn(5) == 0 { // a larger authority block (whatever is special about small worlds must not matter)
		for i := 0; i < 14+r.Intn(12); i++ {
			auth.Facts = append(auth.Facts, ref.Pred{Name: "grant", Terms: []ref.Term{ref.Str(fmt.Sprintf("file%d", i)), ref.Str("read")}})
		}
		auth.Facts = dedupFacts(auth.Facts)
	}
	// a quarter of the runs verify under tight limits: a token that is refused because a limit is
	// hit must stay refused when something is appended to it
	bigDur := bigDur
	if r.Intn(4) == 0 {
		bigDur = &vm.Lim{MaxDurNs: 1e9, MaxFacts: len(auth.Facts) + 3 + r.Intn(8), MaxIter: 2 + r.Intn(4)}
	}
	tok := h.build(key, auth, nil)
	abs := &ref.Token{Blocks: []ref.Block{auth}}
	// authorizer contents known to the (possibly hostile) holders
	var azs []ref.Authz
	for i := 0; i < 1+r.Intn(3); i++ {
		azs = append(azs, g.AuthzFor(auth.Facts, 3, 2, 2, 3))
	}
	verifyAll := func(t int, tag string) {
		for i := range azs {
			az := azs[i]
			h.add(vm.Op{K: "verify", A: t, KS: &vm.KeySel{Key: key}, Az: &az, Lim: bigDur, Name: fmt.Sprintf("%s-az%d", tag, i)})
		}
	}
	verifyAll(tok, "t0")
	hops := 1 + r.Intn(5)
	for hp := 0; hp < hops; hp++ {
		var targets []ref.Rule
		for _, az := range azs {
			targets = append(targets, gen.Targets(az, abs)...)
		}
		known := append([]ref.Pred{}, abs.Blocks[0].Facts...)
		for _, az := range azs {
			known = append(known, az.Facts...)
		}
		blk := g.Hostile(targets, known, r.Intn(2) == 0)
		if r.Intn(3) == 0 { // rules only: derive what the policies ask for from what everybody can see
			if ro := g.RuleOnlyBlock(targets, known); len(ro.Rules) > 0 {
				blk = ro
			}
		}
		tok = h.attenuate(tok, blk)
		abs.Blocks = append(abs.Blocks, blk)
		if r.Intn(5) == 0 { // the holder passes it on over the wire
			tok = h.unm(h.ser(tok))
		}
		verifyAll(tok, fmt.Sprintf("t%d", hp+1))
	}
	return h.p
}

func init() {
	register(&Spec{
		ID: "C02", Level: "exploration", Quick: 2500, Thorough: 250000,
		Rule: "delegation histories: an issuer's token is extended hop by hop (1-5 hops) by holders whose blocks are generated AGAINST the token and the verifier's authorizer contents (facts instantiating the bodies of its policies and checks, rules deriving their predicates, copies of authority and authorizer facts, optional checks); after every hop the same 1-3 authorizer contents are evaluated on parent and child by fresh authorizers (calm schedule). Lineage invariant along every root-to-leaf path: allow(child) => allow(parent). non-trivial = a parent/child pair was compared where the parent was not allowed (distinct by plan hash)",
		Gen: genC02,
		Oracles: func(m *vm.VM) []vm.Oracle {
			return []vm.Oracle{vm.Common{Prop: "C02"}, vm.LineageOracle{}, vm.VerdictOracle{Prop: "C04"}}
		},
		Nontrivial: func(res *vm.Result) bool { return res.Probes["lineage_parent_refused"] > 0 },
		Real:       realAll, Simulated: simAll[:4], Assumptions: assumeAll[1:],
	})
}

// ---- C03: block scoping

func genC03(r *rand.Rand, run int, tier string) *vm.Plan {
	h := newHist(r, 1, false)
	g := h.g
	key := h.issuers[0]
	auth := g.BlockFor(nil, 4, 2, 2)
	az := g.AuthzFor(auth.Facts, 3, 2, 2, 3)
	// check-bearing blocks common to both lineages
	var common []ref.Block
	for i := r.Intn(3); i > 0; i-- {
		common = append(common, g.BlockFor(append(append([]ref.Pred{}, auth.Facts...), az.Facts...), 3, 1, 2))
	}
	abs := &ref.Token{Blocks: append([]ref.Block{auth}, common...)}
	targets := gen.Targets(az, abs)
	known := append(append([]ref.Pred{}, auth.Facts...), az.Facts...)
	// lineage L
	t0 := h.build(key, auth, nil)
	tl := t0
	for _, b := range common {
		tl = h.attenuate(tl, b)
	}
	// lineage L': extra check-free blocks at random positions
	nx := 1 + r.Intn(3)
	pos := make([]int, nx) // extra k is inserted before common block pos[k] (len(common) = at the end)
	for i := range pos {
		pos[i] = r.Intn(len(common) + 1)
	}
	tx := h.add(vm.Op{K: "build", A: key, Blk: &auth, Ent: entropy(r), Out: h.slot()})
	perm := []int{0}
	idx := 0
	var seq []ref.Block // blocks of L' after the authority block
	var isExtra []bool
	var borrowable []ref.Check // checks that occur elsewhere in the request
	for _, cb := range common {
		borrowable = append(borrowable, cb.Checks...)
	}
	borrowable = append(append(borrowable, az.Checks...), auth.Checks...)
	for ci := 0; ci <= len(common); ci++ {
		for k := range pos {
			if pos[k] == ci {
				extra := g.Hostile(targets, known, false)
				if r.Intn(3) == 0 {
					// rules only, over facts that the OTHER blocks state: derives nothing in its own scope
					var later []ref.Pred
					for _, cb := range common {
						later = append(later, cb.Facts...)
					}
					if ro := g.RuleOnlyBlock(targets, later); len(ro.Rules) > 0 {
						extra = ro
					}
				} else if len(borrowable) > 0 && r.Intn(3) == 0 {
					// not check-free: the block carries a verbatim copy of a check that occurs elsewhere
					// in the request and, thanks to its own facts, passes it (kept only if the reference
					// says so, below); whether the same text passes anywhere else is nobody's business
					extra.Checks = append(extra.Checks, borrowable[r.Intn(len(borrowable))])
				}
				seq = append(seq, extra)
				isExtra = append(isExtra, true)
				idx++
			}
		}
		if ci < len(common) {
			seq = append(seq, common[ci])
			isExtra = append(isExtra, false)
			idx++
			perm = append(perm, idx)
		}
	}
	// an extra block must not fail a check of its own (the twins are compared on everything else)
	twinLim := bigDur
	if o := ref.Authorize(&ref.Token{Blocks: append([]ref.Block{auth}, seq...)}, az, 400); true {
		if r.Intn(4) == 0 && !o.Uncertain && o.Class != ref.VLimit && o.Class != ref.VOther {
			// a fact limit just above the largest single scope of the longer lineage: what one block
			// holds or derives is not charged to any other
			twinLim = &vm.Lim{MaxDurNs: 1e9, MaxFacts: o.MaxSize() + 1 + r.Intn(3)}
		}
		for i := range seq {
			if !isExtra[i] || len(seq[i].Checks) == 0 {
				continue
			}
			drop := o.Uncertain || o.Class == ref.VLimit || o.Class == ref.VOther
			for _, f := range o.FailedChecks {
				if f.Block == i+1 {
					drop = true
				}
			}
			if drop {
				seq[i].Checks = nil
			}
		}
	}
	for i := range seq {
		tx = h.attenuate(tx, seq[i])
	}
	// the holder looks facts of the extra blocks up in the finished token (GetBlockID): looking
	// does not move anything between scopes
	for i := range seq {
		if isExtra[i] && len(seq[i].Facts) > 0 && r.Intn(3) == 0 {
			f := seq[i].Facts[r.Intn(len(seq[i].Facts))]
			h.add(vm.Op{K: "blockid", A: tx, F: &f})
		}
	}
	var qs []ref.Rule
	for i := 1 + r.Intn(3); i > 0; i-- {
		if r.Intn(2) == 0 {
			qs = append(qs, g.QueryFrom(known))
		} else {
			qs = append(qs, g.Rule())
		}
	}
	for _, q := range targets {
		if r.Intn(3) == 0 && len(q.Body) > 0 {
			qs = append(qs, ref.Rule{Head: ref.Pred{Name: "query"}, Body: q.Body[:1]})
		}
	}
	h.add(vm.Op{K: "verify", A: tl, KS: &vm.KeySel{Key: key}, Az: &az, Qs: qs, Lim: twinLim, Name: "twin"})
	h.add(vm.Op{K: "verify", A: tx, KS: &vm.KeySel{Key: key}, Az: &az, Qs: qs, Lim: twinLim, Name: "twin", Map: perm})
	// the authorizer's facts arrive in two instalments with an evaluation in between: what is added
	// after a first Authorize is as visible to every block as what was there before it (twin: a
	// fresh authorizer that is given everything at once)
	if r.Intn(3) == 0 && len(az.Facts) > 0 {
		tok := tl
		if r.Intn(2) == 0 {
			tok = tx
		}
		cut := r.Intn(len(az.Facts))
		// (without rules of the authorizer's own: Authorize withdraws them from the authorizer's world
		// once the authority level is evaluated, so what they would derive from facts added later is
		// outside what C03 or C12 state; the token's rules are loaded again by every Authorize)
		az := az
		az.Rules = nil
		first := az
		first.Facts = append([]ref.Pred{}, az.Facts[:cut]...)
		second := ref.Authz{Facts: append([]ref.Pred{}, az.Facts[cut:]...)}
		la := h.add(vm.Op{K: "az", A: tok, KS: &vm.KeySel{Key: key}, Lim: bigDur, Out: h.slot()})
		h.add(vm.Op{K: "azadd", A: la, Az: &first})
		h.add(vm.Op{K: "azauth", A: la, Qs: qs})
		h.add(vm.Op{K: "azadd", A: la, Az: &second})
		h.add(vm.Op{K: "azauth", A: la, Qs: qs, Name: "late"})
		h.add(vm.Op{K: "verify", A: tok, KS: &vm.KeySel{Key: key}, Az: &az, Qs: qs, Lim: bigDur, Name: "late"})
	}
	// a later block whose own evaluation trips a limit: the authorizer's queries must still see
	// the authority-level closure only (decided by the reference closure, not by twin agreement)
	if r.Intn(3) == 0 {
		ch := chain(6 + r.Intn(6))
		ch.Facts = append(ch.Facts, g.Hostile(targets, known, false).Facts...)
		ty := h.attenuate(tl, ch)
		lim := &vm.Lim{MaxDurNs: 1e9, MaxIter: 3 + r.Intn(3)}
		if r.Intn(2) == 0 {
			lim = &vm.Lim{MaxDurNs: 1e9, MaxFacts: len(auth.Facts) + len(az.Facts) + 4}
		}
		h.add(vm.Op{K: "verify", A: ty, KS: &vm.KeySel{Key: key}, Az: &az, Qs: qs, Lim: lim, Flags: []string{"query-after-limit"}})
	}
	// a fifth of the runs evaluate under clock stalls with left-behind goroutines running on: a
	// block's evaluation that is cut short must not leave anything of the block visible to the
	// queries that follow on the same authorizer
	if r.Intn(5) == 0 {
		for i := range h.p.Ops {
			if h.p.Ops[i].K == "verify" {
				h.p.Ops[i].Flags = append(h.p.Ops[i].Flags, "query-after-limit")
			}
		}
		schedule(r, h.p, "stall", 1e9, 30+r.Intn(600))
	}
	return h.p
}

func init() {
	register(&Spec{
		ID: "C03", Level: "exploration", Quick: 3000, Thorough: 300000,
		Rule: "twin delegation histories from the same authority content: lineage L carries 0-2 check-bearing blocks, lineage L' carries the same blocks plus 1-3 extra CHECK-FREE blocks (facts and rules generated against the authorizer's policies/checks and the other blocks' checks) inserted at random positions (a ninth of the extra blocks also carry a verbatim copy of a check that occurs elsewhere in the request and that, by the reference model, their own facts satisfy; rule-only extras over other blocks' facts); both are authorized with the same authorizer content and the same panel of queries by fresh authorizers (calm schedule). Twin agreement: same verdict class, same set of failed checks (block indexes remapped through the known insertion positions), same query result sets. Visibility of authority/authorizer facts in later blocks is decided by the reference verdict (C04 oracle) on the same runs; a third of the runs also deliver the authorizer's facts in two instalments around a first Authorize and compare with a fresh authorizer given everything at once. non-trivial = a twin pair was compared (distinct by plan hash)",
		Gen: genC03,
		Oracles: func(m *vm.VM) []vm.Oracle {
			return []vm.Oracle{vm.Common{Prop: "C03"}, vm.AgreeOracle{Prop: "C03", Invariant: "scoping-twin-disagrees", Failed: true, Remap: true, Queries: true, SameAz: true}, vm.QueryOracle{Prop: "C03"}, vm.VerdictOracle{Prop: "C04"}}
		},
		Nontrivial: func(res *vm.Result) bool { return res.Probes["agree_groups_compared"] > 0 },
		Real:       realAll, Simulated: simAll[:4], Assumptions: assumeAll[1:],
	})
}

// ---- C12: determinism, independence of presentation order

func renameVars(rl ref.Rule, mp map[string]string) ref.Rule {
	rt := func(t ref.Term) ref.Term {
		if t.K == ref.KVar {
			if n, ok := mp[t.S]; ok {
				return ref.Var(n)
			}
		}
		return t
	}
	rp := func(p ref.Pred) ref.Pred {
		o := ref.Pred{Name: p.Name}
		for _, t := range p.Terms {
			o.Terms = append(o.Terms, rt(t))
		}
		return o
	}
	var re func(e ref.Expr) ref.Expr
	re = func(e ref.Expr) ref.Expr {
		if e.Op == "" {
			t := rt(*e.T)
			return ref.Leaf(t)
		}
		o := ref.Expr{Op: e.Op}
		for _, a := range e.Args {
			o.Args = append(o.Args, re(a))
		}
		return o
	}
	out := ref.Rule{Head: rp(rl.Head)}
	for _, b := range rl.Body {
		out.Body = append(out.Body, rp(b))
	}
	for _, e := range rl.Exprs {
		out.Exprs = append(out.Exprs, re(e))
	}
	return out
}

func ruleVars(rl ref.Rule) []string {
	seen := map[string]bool{}
	var out []string
	add := func(p ref.Pred) {
		for _, t := range p.Terms {
			if t.K == ref.KVar && !seen[t.S] {
				seen[t.S] = true
				out = append(out, t.S)
			}
		}
	}
	for _, b := range rl.Body {
		add(b)
	}
	add(rl.Head)
	return out
}

// presentation returns an equivalent presentation of the authorizer content.
func presentation(r *rand.Rand, a ref.Authz, rename bool, strs []string) (ref.Authz, []int) {
	o := ref.Authz{}
	o.Facts = append(o.Facts, a.Facts...)
	if len(o.Facts) > 0 && r.Intn(2) == 0 { // duplicate a fact
		o.Facts = append(o.Facts, o.Facts[r.Intn(len(o.Facts))])
	}
	ren := func(rl ref.Rule) ref.Rule {
		if !rename {
			return rl
		}
		vs := ruleVars(rl)
		mp := map[string]string{}
		pool := append([]string{"alpha", "beta", "gamma", "delta", "eps", "zeta", "eta", "theta"}, strs...)
		perm := r.Perm(len(pool))
		for i, v := range vs {
			mp[v] = pool[perm[i%len(perm)]]
			if i >= len(perm) {
				mp[v] = fmt.Sprintf("%s_%d", mp[v], i)
			}
		}
		return renameVars(rl, mp)
	}
	for _, rl := range a.Rules {
		o.Rules = append(o.Rules, ren(rl))
	}
	for _, c := range a.Checks {
		nc := ref.Check{}
		for _, qi := range r.Perm(len(c.Queries)) {
			nc.Queries = append(nc.Queries, ren(c.Queries[qi]))
		}
		o.Checks = append(o.Checks, nc)
	}
	for _, p := range a.Policies { // policies keep their order; queries inside keep order too (first matching decides the same kind)
		np := ref.Policy{Allow: p.Allow}
		for _, q := range p.Queries {
			np.Queries = append(np.Queries, ren(q))
		}
		o.Policies = append(o.Policies, np)
	}
	return o, r.Perm(len(o.Facts) + len(o.Rules) + len(o.Checks))
}

func genC12(r *rand.Rand, run int, tier string) *vm.Plan {
	h := newHist(r, 1, false)
	g := h.g
	key := h.issuers[0]
	auth := g.BlockFor(nil, 5, 3, 2)
	var blocks []ref.Block
	for i := r.Intn(3); i > 0; i-- {
		blocks = append(blocks, g.BlockFor(auth.Facts, 3, 2, 2))
	}
	az := g.AuthzFor(auth.Facts, 4, 3, 3, 3)
	if r.Intn(150) == 0 {
		// a wide join: 41-43 facts n(i) and a check over three of them that only n(max), n(max), n(max)
		// satisfies, i.e. one combination out of ~70 000, whose position in the enumeration depends on
		// the order in which the facts were supplied (the replicas get them in different orders)
		n := 41 + r.Intn(3)
		auth = ref.Block{}
		for i := 0; i < n; i++ {
			auth.Facts = append(auth.Facts, ref.Pred{Name: "n", Terms: []ref.Term{ref.Int(int64(i))}})
		}
		blocks = nil
		v := ref.Var
		sum := ref.Bin("+", ref.Bin("+", ref.Leaf(v("a")), ref.Leaf(v("b"))), ref.Leaf(v("c")))
		az = ref.Authz{
			Checks: []ref.Check{{Queries: []ref.Rule{{Head: ref.Pred{Name: "query"},
				Body:  []ref.Pred{{Name: "n", Terms: []ref.Term{v("a")}}, {Name: "n", Terms: []ref.Term{v("b")}}, {Name: "n", Terms: []ref.Term{v("c")}}},
				Exprs: []ref.Expr{ref.Bin("==", sum, ref.Leaf(ref.Int(int64(3*(n-1)))))}}}}},
			Policies: []ref.Policy{{Allow: true, Queries: []ref.Rule{gen.TrueQuery()}}},
		}
	}
	var qs []ref.Rule
	for i := 1 + r.Intn(2); i > 0; i-- {
		qs = append(qs, g.QueryFrom(append(append([]ref.Pred{}, auth.Facts...), az.Facts...)))
	}
	qs = append(qs, g.Rule())
	// the set of derived facts, observed through one query per predicate signature
	for _, sg := range g.Sigs {
		p := ref.Pred{Name: sg.Name}
		for i := range sg.Kinds {
			p.Terms = append(p.Terms, ref.Var(fmt.Sprintf("a%d", i)))
		}
		qs = append(qs, ref.Rule{Head: p, Body: []ref.Pred{p}})
	}
	// a quarter of the groups run under a fact limit just above what the request needs: neither
	// the presentation nor a repeated Authorize may cost facts
	lim := bigDur
	if r.Intn(4) == 0 {
		if o := ref.Authorize(&ref.Token{Blocks: append([]ref.Block{auth}, blocks...)}, az, 400); !o.Uncertain && o.Class != ref.VLimit && o.Class != ref.VOther {
			lim = &vm.Lim{MaxDurNs: 1e9, MaxFacts: o.MaxSize() + 1 + r.Intn(3)}
		}
	}
	k := 2 + r.Intn(3)
	for rep := 0; rep < k; rep++ {
		// token content presented in another order (a different token with the same sets)
		a2 := auth
		if rep > 0 {
			a2 = ref.Block{Context: auth.Context}
			for _, i := range r.Perm(len(auth.Facts)) {
				a2.Facts = append(a2.Facts, auth.Facts[i])
			}
			for _, i := range r.Perm(len(auth.Rules)) {
				a2.Rules = append(a2.Rules, auth.Rules[i])
			}
			a2.Checks = auth.Checks
		}
		t := h.build(key, a2, nil)
		for _, b := range blocks {
			t = h.attenuate(t, b)
		}
		var paz ref.Authz
		var perm []int
		if rep == 0 {
			paz = az
		} else {
			paz, perm = presentation(r, az, rep == k-1, g.Strs)
		}
		n := 0
		if r.Intn(2) == 0 {
			n = 1 + r.Intn(2)
		}
		h.add(vm.Op{K: "verify", A: t, KS: &vm.KeySel{Key: key}, Az: &paz, Qs: qs, Perm: perm, N: n, Lim: lim, Name: "replica", Flags: []string{"permute-checks"}})
	}
	return h.p
}

func init() {
	register(&Spec{
		ID: "C12", Level: "exploration", Quick: 3000, Thorough: 300000,
		Rule: "2-4 verifier replicas receive the same logical request presented differently: authority facts and rules built in another order, authorizer facts / rules / checks added in a random interleaving, queries inside a check permuted, a fact duplicated, variables renamed consistently per rule (also onto strings used as constants) on one replica, Authorize repeated 1-2 more times on the same authorizer; policies keep their order; a quarter of the groups run under a fact limit just above what the request needs; one group in 150 is a three-way join over 41-43 facts with exactly one satisfying combination. Replica agreement on the verdict class, the number of failed checks, the result sets of a query panel and the set of derived facts (one query per predicate signature; PrintWorld is not used because it prints strings inside sets as raw symbol indexes, which depend on interning order); a repeated Authorize must equal the first. non-trivial = a replica group was compared (distinct by plan hash)",
		Gen: genC12,
		Oracles: func(m *vm.VM) []vm.Oracle {
			return []vm.Oracle{vm.Common{Prop: "C12"}, vm.AgreeOracle{Prop: "C12", Invariant: "replicas-disagree", NFailed: true, Queries: true}, vm.RepeatOracle{}, vm.VerdictOracle{Prop: "C04"}}
		},
		Nontrivial: func(res *vm.Result) bool { return res.Probes["agree_groups_compared"] > 0 },
		Real:       realAll, Simulated: simAll[:3], Assumptions: assumeAll[1:],
	})
}

// ---- C13: Reset

// genC13Directed: the base histories of the stall sweep. A productive round (facts and a
// self-join rule deriving "captain") is followed, after Reset, by rounds that derive nothing
// themselves and whose policies and queries ask about "captain"; the sweep then places the
// deadline at every scheduler step of the whole history, without draining left-behind goroutines.
func genC13Directed(r *rand.Rand, run int) *vm.Plan {
	h := newHist(r, 1, false)
	g := h.g
	key := h.issuers[0]
	auth := g.BlockFor(nil, 2, 1, 1)
	t := h.build(key, auth, nil)
	if r.Intn(2) == 0 {
		t = h.attenuate(t, g.BlockFor(auth.Facts, 1, 1, 1))
	}
	lim := &vm.Lim{MaxDurNs: 2e6}
	az := h.add(vm.Op{K: "az", A: t, KS: &vm.KeySel{Key: key}, Lim: lim, Out: h.slot()})
	v := ref.Var
	panel := []ref.Rule{
		{Head: ref.Pred{Name: "captain", Terms: []ref.Term{v("m")}}, Body: []ref.Pred{{Name: "captain", Terms: []ref.Term{v("m")}}}},
		{Head: ref.Pred{Name: "squad", Terms: []ref.Term{v("m")}}, Body: []ref.Pred{{Name: "squad", Terms: []ref.Term{v("m")}}}},
	}
	allowAll := ref.Policy{Allow: true, Queries: []ref.Rule{gen.TrueQuery()}}
	var twins []vm.Op
	rounds := 2 + r.Intn(2)
	for rd := 0; rd < rounds; rd++ {
		var content ref.Authz
		if rd%2 == 0 {
			n := 2 + r.Intn(3)
			for i := 0; i < n; i++ {
				content.Facts = append(content.Facts, ref.Pred{Name: "squad", Terms: []ref.Term{ref.Int(int64(i))}})
			}
			body := []ref.Pred{{Name: "squad", Terms: []ref.Term{v("a")}}, {Name: "squad", Terms: []ref.Term{v("b")}}}
			if run%3 == 0 {
				body = append(body, ref.Pred{Name: "squad", Terms: []ref.Term{v("c")}})
			}
			content.Rules = []ref.Rule{{Head: ref.Pred{Name: "captain", Terms: []ref.Term{v("a")}}, Body: body}}
			if run%2 == 0 { // a second rule, so that the first is not the last of the iteration
				content.Rules = append(content.Rules, ref.Rule{Head: ref.Pred{Name: "squad", Terms: []ref.Term{ref.Int(9)}}, Body: []ref.Pred{{Name: "captain", Terms: []ref.Term{ref.Int(0)}}}})
			}
			content.Policies = []ref.Policy{allowAll}
		} else {
			content.Policies = []ref.Policy{
				{Allow: true, Queries: []ref.Rule{{Head: ref.Pred{Name: "query"}, Body: []ref.Pred{{Name: "captain", Terms: []ref.Term{ref.Int(int64(r.Intn(3)))}}}}}},
				{Allow: false, Queries: []ref.Rule{gen.TrueQuery()}},
			}
			content.Facts = g.Facts(r.Intn(2))
		}
		name := fmt.Sprintf("round%d", rd)
		h.add(vm.Op{K: "azadd", A: az, Az: &content})
		h.add(vm.Op{K: "azauth", A: az, Qs: panel, Name: name})
		// the fresh twins run after the whole history, so that whatever a round leaves behind
		// is still around when the next round of the long-lived authorizer starts
		twins = append(twins, vm.Op{K: "verify", A: t, KS: &vm.KeySel{Key: key}, Az: &content, Qs: panel, Lim: lim, Name: name})
		h.add(vm.Op{K: "azreset", A: az})
	}
	for _, tw := range twins {
		h.add(tw)
	}
	h.p.Note = "directed"
	return h.p
}

// genC13Files: every round of a long-lived authorizer gets its content as a stored policy file
// (LoadPolicies after Reset); the files of successive rounds have the same size and differ in one
// string, and the verifier reads each into the same buffer. What decides a round is the file of
// that round.
func genC13Files(r *rand.Rand, run int) *vm.Plan {
	h := newHist(r, 1, false)
	g := h.g
	key := h.issuers[0]
	auth := g.BlockFor(nil, 2, 1, 0)
	t := h.build(key, auth, nil)
	if r.Intn(2) == 0 {
		t = h.attenuate(t, g.BlockFor(auth.Facts, 1, 1, 0))
	}
	lim := &vm.Lim{MaxDurNs: 1e9}
	az := h.add(vm.Op{K: "az", A: t, KS: &vm.KeySel{Key: key}, Lim: lim, Out: h.slot()})
	names := []string{"file1", "file2", "file3", "file4"}
	r.Shuffle(len(names), func(i, j int) { names[i], names[j] = names[j], names[i] })
	have := names[r.Intn(2)]
	res := func(s string) ref.Pred { return ref.Pred{Name: "resource", Terms: []ref.Term{ref.Str(s)}} }
	qs := []ref.Rule{{Head: ref.Pred{Name: "resource", Terms: []ref.Term{ref.Var("x")}}, Body: []ref.Pred{{Name: "resource", Terms: []ref.Term{ref.Var("x")}}}}}
	var twins []vm.Op
	rounds := 2 + r.Intn(3)
	for rd := 0; rd < rounds; rd++ {
		want := names[rd%len(names)]
		if r.Intn(3) == 0 {
			want = have
		}
		content := ref.Authz{
			Facts: []ref.Pred{res(have)},
			Policies: []ref.Policy{
				{Allow: true, Queries: []ref.Rule{{Head: ref.Pred{Name: "query"}, Body: []ref.Pred{res(want)}}}},
				{Allow: false, Queries: []ref.Rule{gen.TrueQuery()}},
			},
		}
		if r.Intn(3) == 0 {
			content.Checks = []ref.Check{{Queries: []ref.Rule{{Head: ref.Pred{Name: "query"}, Body: []ref.Pred{res(names[(rd+1)%len(names)])}}}}}
		}
		name := fmt.Sprintf("round%d", rd)
		h.add(vm.Op{K: "azadd", A: az, Az: &content, Flags: []string{"via-load"}})
		h.add(vm.Op{K: "azauth", A: az, Qs: qs, Name: name})
		tw := vm.Op{K: "verify", A: t, KS: &vm.KeySel{Key: key}, Az: &content, Qs: qs, Lim: lim, Name: name}
		if r.Intn(2) == 0 {
			tw.Flags = []string{"via-load"}
		}
		twins = append(twins, tw)
		h.add(vm.Op{K: "azreset", A: az})
	}
	for _, tw := range twins {
		h.add(tw)
	}
	h.p.Note = "policy files"
	return h.p
}

func c13SweepN(tier string) int {
	if tier == "thorough" {
		return 120
	}
	return 12
}

func genC13(r *rand.Rand, run int, tier string) *vm.Plan {
	h := newHist(r, 1, false)
	g := h.g
	key := h.issuers[0]
	auth := g.BlockFor(nil, 3, 2, 2)
	// ambient facts: what requests typically bring; the token's block checks depend on them
	ambient := g.Facts(5)
	t := h.build(key, auth, nil)
	for i := r.Intn(3); i > 0; i-- {
		t = h.attenuate(t, g.BlockFor(append(append([]ref.Pred{}, auth.Facts...), ambient...), 2, 1, 2))
	}
	lim := &vm.Lim{MaxDurNs: []int64{2e6, 1e9}[r.Intn(2)]}
	if r.Intn(5) == 0 {
		lim.MaxFacts = 3 + r.Intn(10)
	}
	if r.Intn(4) == 0 { // a tight iteration limit: what one round uses must not be charged to the next
		lim.MaxIter = 3 + r.Intn(5)
	}
	az := h.add(vm.Op{K: "az", A: t, KS: &vm.KeySel{Key: key}, Lim: lim, Out: h.slot()})
	// the fresh twins run either right after their round or (half of the plans) after the whole
	// history, so that whatever a round leaves behind is still around when the next round starts
	lateTwins := r.Intn(2) == 0
	var twins []vm.Op
	rounds := 2 + r.Intn(4)
	var prev ref.Authz
	for rd := 0; rd < rounds; rd++ {
		var content ref.Authz
		if rd > 0 && r.Intn(2) == 0 {
			// this round's checks and policies are satisfiable by the PREVIOUS round's facts, which it does not repeat
			content = g.AuthzFor(append(append([]ref.Pred{}, prev.Facts...), auth.Facts...), 0, 1, 2, 2)
		} else {
			content = g.AuthzFor(auth.Facts, 4, 2, 2, 3)
		}
		if r.Intn(4) == 0 {
			// a productive round: n facts and a self-join rule deriving a predicate that the NEXT
			// round's policies and queries ask about (and that the next round does not derive itself)
			n := 2 + r.Intn(3)
			for i := 0; i < n; i++ {
				content.Facts = append(content.Facts, ref.Pred{Name: "squad", Terms: []ref.Term{ref.Int(int64(i))}})
			}
			body := []ref.Pred{{Name: "squad", Terms: []ref.Term{ref.Var("a")}}, {Name: "squad", Terms: []ref.Term{ref.Var("b")}}}
			if r.Intn(3) == 0 {
				body = append(body, ref.Pred{Name: "squad", Terms: []ref.Term{ref.Var("c")}})
			}
			content.Rules = append(content.Rules, ref.Rule{Head: ref.Pred{Name: "captain", Terms: []ref.Term{ref.Var("a")}}, Body: body})
		} else if rd > 0 && r.Intn(3) == 0 {
			content.Policies = append([]ref.Policy{{Allow: true, Queries: []ref.Rule{{Head: ref.Pred{Name: "query"}, Body: []ref.Pred{{Name: "captain", Terms: []ref.Term{ref.Int(int64(r.Intn(4)))}}}}}}}, content.Policies...)
		}
		// each round brings its own subset of the ambient facts
		have := map[string]bool{}
		for _, f := range content.Facts {
			have[f.Canon()] = true
		}
		for _, f := range ambient {
			if r.Intn(2) == 0 && !have[f.Canon()] {
				content.Facts = append(content.Facts, f)
			}
		}
		var qs []ref.Rule
		for i := r.Intn(3); i > 0; i-- {
			qs = append(qs, g.QueryFrom(append(append([]ref.Pred{}, prev.Facts...), content.Facts...)))
		}
		// and the whole set of facts the round can see, one query per predicate signature
		for _, sg := range g.Sigs {
			p := ref.Pred{Name: sg.Name}
			for i := range sg.Kinds {
				p.Terms = append(p.Terms, ref.Var(fmt.Sprintf("a%d", i)))
			}
			qs = append(qs, ref.Rule{Head: p, Body: []ref.Pred{p}})
		}
		for _, n := range []string{"captain", "squad"} {
			p := ref.Pred{Name: n, Terms: []ref.Term{ref.Var("m")}}
			qs = append(qs, ref.Rule{Head: p, Body: []ref.Pred{p}})
		}
		name := fmt.Sprintf("round%d", rd)
		h.add(vm.Op{K: "azadd", A: az, Az: &content})
		if r.Intn(7) == 0 { // a round that is abandoned before it is evaluated
			h.add(vm.Op{K: "azreset", A: az})
			prev = content
			continue
		}
		var twin vm.Op
		if r.Intn(6) == 0 {
			h.add(vm.Op{K: "azquery", A: az, Qs: qs, Name: name})
			twin = vm.Op{K: "verify", A: t, KS: &vm.KeySel{Key: key}, Az: &content, Qs: qs, Lim: lim, Name: name, Flags: []string{"noauth"}}
		} else {
			h.add(vm.Op{K: "azauth", A: az, Qs: qs, Name: name})
			twin = vm.Op{K: "verify", A: t, KS: &vm.KeySel{Key: key}, Az: &content, Qs: qs, Lim: lim, Name: name}
		}
		if lateTwins {
			twins = append(twins, twin)
		} else {
			h.add(twin)
		}
		h.add(vm.Op{K: "azreset", A: az})
		prev = content
	}
	for _, tw := range twins {
		h.add(tw)
	}
	mode := []string{"calm", "calm", "order", "stall"}[r.Intn(4)]
	schedule(r, h.p, mode, lim.MaxDurNs, 50+r.Intn(400))
	return h.p
}

func init() {
	register(&Spec{
		ID: "C13", Level: "exploration", Quick: 3000, Thorough: 300000,
		Rule: "request histories on one long-lived authorizer: 2-5 rounds of (add facts/rules/checks/policies, Authorize or Query with a query panel, Reset), any outcome per round (allow, deny, no match, check failure, limit error, tape-forced timeout); half of the rounds carry checks/policies that only the PREVIOUS round's facts would satisfy. Fresh-twin agreement per round: the reused authorizer's verdict class, failed checks and query results equal those of an authorizer freshly created for the same token with the same options and only that round's content. non-trivial = a round after at least one Reset was compared with its fresh twin (distinct by plan hash)",
		Gen: func(r *rand.Rand, run int, tier string) *vm.Plan {
			if run < c13SweepN(tier) { // base plans of the stall sweep are calm; the sweep adds the fault
				if run%2 == 0 {
					return genC13Directed(r, run)
				}
				p := genC13(r, run, tier)
				p.Faults, p.Tape, p.Lazy = nil, nil, false
				return p
			}
			if run%16 == 5 {
				return genC13Files(r, run)
			}
			return genC13(r, run, tier)
		},
		Sweep:  sweepStallsLazy,
		SweepN: c13SweepN,
		Oracles: func(m *vm.VM) []vm.Oracle {
			return []vm.Oracle{vm.Common{Prop: "C13"}, vm.AgreeOracle{Prop: "C13", Invariant: "reset-leaks", Failed: true, Queries: true, SameAz: true}, vm.VerdictOracle{Prop: "C04"}}
		},
		Nontrivial: func(res *vm.Result) bool { return res.Probes["agree_groups_compared"] > 1 },
		Real:       realAll, Simulated: simAll[:3], Assumptions: assumeAll[1:],
	})
}

// ---- C18: snapshot / restore

func genC18(r *rand.Rand, run int, tier string) *vm.Plan {
	h := newHist(r, 1, false)
	g := h.g
	key := h.issuers[0]
	auth := g.BlockFor(nil, 3, 2, 1)
	t1 := h.build(key, auth, nil)
	toks := []int{t1}
	if r.Intn(2) == 0 {
		toks = append(toks, h.attenuate(t1, g.BlockFor(auth.Facts, 2, 1, 2)))
	}
	if r.Intn(3) == 0 {
		toks = append(toks, h.build(key, g.BlockFor(nil, 3, 1, 1), nil))
	}
	content := g.AuthzFor(auth.Facts, 4, 3, 3, 4)
	// a quarter of the runs configure tight limits on every authorizer of the run (original, fresh
	// twin, restored): a restored authorizer runs under the limits it was created with
	bigDur := bigDur
	if r.Intn(4) == 0 {
		bigDur = &vm.Lim{MaxDurNs: 1e9, MaxFacts: len(content.Facts) + len(auth.Facts) + r.Intn(5), MaxIter: 1 + r.Intn(3)}
	}
	var qs []ref.Rule
	for i := 1 + r.Intn(2); i > 0; i-- {
		qs = append(qs, g.QueryFrom(append(append([]ref.Pred{}, auth.Facts...), content.Facts...)))
	}
	faulty := run%3 == 2 // separate configurations: two thirds clean disk, one third faulty disk
	az := h.add(vm.Op{K: "az", A: toks[0], KS: &vm.KeySel{Key: key}, Lim: bigDur, Out: h.slot()})
	h.add(vm.Op{K: "azadd", A: az, Az: &content, Perm: r.Perm(len(content.Facts) + len(content.Rules) + len(content.Checks))})
	snap := h.add(vm.Op{K: "azsave", A: az, Out: h.slot()})
	if r.Intn(4) == 0 {
		// a template authorizer that is saved more than once: the snapshot that goes to disk is its
		// first; afterwards it is reset, given less, and saved again (and once more after an addition)
		azs := h.add(vm.Op{K: "az", A: toks[0], KS: &vm.KeySel{Key: key}, Lim: bigDur, Out: h.slot()})
		h.add(vm.Op{K: "azadd", A: azs, Az: &content})
		snap = h.add(vm.Op{K: "azsave", A: azs, Out: h.slot()})
		h.add(vm.Op{K: "azreset", A: azs})
		small := g.AuthzFor(auth.Facts, 1, 0, 1, 1)
		h.add(vm.Op{K: "azadd", A: azs, Az: &small})
		h.add(vm.Op{K: "azsave", A: azs, Out: h.slot()})
		more := ref.Authz{Facts: g.Facts(1 + r.Intn(2))}
		h.add(vm.Op{K: "azadd", A: azs, Az: &more})
		h.add(vm.Op{K: "azsave", A: azs, Out: h.slot()})
	}
	// saving is refused once evaluated
	switch r.Intn(3) {
	case 0:
		// the original itself, evaluated after the snapshot was taken: member of the tok0 twin group
		h.add(vm.Op{K: "azauth", A: az, Qs: qs, Name: "tok0"})
	case 1:
		// Authorize only (whatever its outcome, also a failed check): no Query that would mark the authorizer evaluated on its own
		h.add(vm.Op{K: "azauth", A: az})
	default:
		h.add(vm.Op{K: "azquery", A: az, Qs: qs[:1]})
	}
	h.add(vm.Op{K: "azsave", A: az, Out: h.slot()})
	fault, n := "", r.Intn(1<<16)
	if faulty {
		fault = []string{"torn", "short", "flip", "lost", "flip"}[r.Intn(5)]
		if r.Intn(4) == 0 { // a stale older version is on disk
			old := g.AuthzFor(auth.Facts, 2, 1, 1, 1)
			az0 := h.add(vm.Op{K: "az", A: toks[0], KS: &vm.KeySel{Key: key}, Lim: bigDur, Out: h.slot()})
			h.add(vm.Op{K: "azadd", A: az0, Az: &old})
			s0 := h.add(vm.Op{K: "azsave", A: az0, Out: h.slot()})
			h.add(vm.Op{K: "dwrite", A: s0, Name: "policies"})
			h.add(vm.Op{K: "dsync", Name: "policies"})
		}
	}
	h.add(vm.Op{K: "dwrite", A: snap, Name: "policies", Via: fault, N: n})
	if !faulty || r.Intn(2) == 0 {
		h.add(vm.Op{K: "dsync", Name: "policies"})
	}
	h.add(vm.Op{K: "dcrash"})
	blob := h.add(vm.Op{K: "dread", Name: "policies", Out: h.slot()})
	for i, t := range toks {
		name := fmt.Sprintf("tok%d", i)
		if faulty {
			name = "" // a damaged or stale snapshot is a different policy: no agreement is demanded
		}
		h.add(vm.Op{K: "verify", A: t, KS: &vm.KeySel{Key: key}, Az: &content, Qs: qs, Lim: bigDur, Name: name})
		a2 := h.add(vm.Op{K: "az", A: t, KS: &vm.KeySel{Key: key}, Lim: bigDur, Out: h.slot()})
		queriedFirst := r.Intn(4) == 0
		if queriedFirst { // the (still empty) authorizer has already answered a query before the snapshot is loaded
			h.add(vm.Op{K: "azquery", A: a2, Qs: qs[:1]})
		}
		h.add(vm.Op{K: "azload", A: a2, B: blob})
		if queriedFirst && !faulty && r.Intn(2) == 0 {
			// and is only queried afterwards (no Authorize): what the loaded rules derive must be there;
			// the twin is a fresh authorizer given the same content and asked the same questions
			var hq []ref.Rule
			for _, rl := range content.Rules {
				p := ref.Pred{Name: rl.Head.Name}
				for i := range rl.Head.Terms {
					p.Terms = append(p.Terms, ref.Var(fmt.Sprintf("h%d", i)))
				}
				hq = append(hq, ref.Rule{Head: p, Body: []ref.Pred{p}})
			}
			hq = append(hq, qs...)
			nq := fmt.Sprintf("queried-tok%d", i)
			h.add(vm.Op{K: "azquery", A: a2, Qs: hq, Name: nq})
			h.add(vm.Op{K: "verify", A: t, KS: &vm.KeySel{Key: key}, Az: &content, Qs: hq, Lim: bigDur, Name: nq, Flags: []string{"noauth"}})
			continue
		}
		h.add(vm.Op{K: "azauth", A: a2, Qs: qs, Name: name})
		if faulty { // the verifier stays usable
			more := g.AuthzFor(auth.Facts, 2, 1, 1, 2)
			h.add(vm.Op{K: "azreset", A: a2})
			h.add(vm.Op{K: "azadd", A: a2, Az: &more})
			h.add(vm.Op{K: "azauth", A: a2})
		}
	}
	if faulty {
		h.p.Note = "faulty-disk:" + fault
	} else {
		h.p.Note = "clean-disk"
	}
	return h.p
}

func init() {
	register(&Spec{
		ID: "C18", Level: "exploration", Quick: 3000, Thorough: 300000,
		Rule: "a verifier fills an unevaluated authorizer (all term types, default and fresh symbols, several checks, ordered allow/deny policies), calls SerializePolicies, writes the bytes to the simulated disk, syncs, crashes; after restart fresh authorizers for 1-3 tokens LoadPolicies from disk and authorize. Two configurations run separately: clean disk (2/3 of runs): restored-vs-original twin agreement on verdict class, failed checks and a query panel for every token, and SerializePolicies after Authorize/Query must be refused; faulty disk (1/3): torn, short, bit-flipped, lost or unsynced write (stale or missing file) must give an error or a usable authorizer, never a panic. non-trivial = a restored authorizer was compared with its original twin, or a faulty snapshot was loaded (distinct by plan hash)",
		Gen: genC18,
		Oracles: func(m *vm.VM) []vm.Oracle {
			return []vm.Oracle{vm.Common{Prop: "C18"}, vm.SnapshotOracle{}, vm.AgreeOracle{Prop: "C18", Invariant: "restored-differs-from-original", Failed: true, Queries: true, SameAz: true}, vm.VerdictOracle{Prop: "C04"}}
		},
		Nontrivial: func(res *vm.Result) bool {
			return res.Probes["snapshot_restored_clean"] > 0 || res.Probes["snapshot_loaded_faulty"] > 0
		},
		Real: realAll, Simulated: []string{simAll[0], simAll[1], simAll[4], "process crash/restart of the verifier (in-memory authorizers are lost, only synced disk content survives)"}, Assumptions: assumeAll[1:],
	})
}

package props

import (
	"fmt"
	"math/rand"

	"bsim/gen"
	"bsim/ref"
	"bsim/vm"
)

// genC08: interleaved histories over a growing family of tokens, builders and
// blocks sharing ancestors.
func genC08(r *rand.Rand, run int, tier string) *vm.Plan {
	h := newHist(r, 1, r.Intn(3) == 0)
	g := h.g
	key := h.issuers[0]
	// a root token; often with several fresh symbols so that its table has spare capacity
	var blds, bbs, blks []int
	bbParent := map[int]int{}
	blkParent := map[int]int{}
	if run%5 == 3 && len(h.base) == 0 {
		h.base = []string{"tenant-a", "zone", "quota"}
	}
	bld := h.add(vm.Op{K: "bld", A: key, Ent: entropy(r), RootID: h.ids[key], Base: h.base, Out: h.slot()})
	blds = append(blds, bld)
	h.add(vm.Op{K: "bldadd", A: bld, Blk: blkp(g.Block(4, 2, 1))})
	if r.Intn(3) == 0 {
		// an issuer with several token builders alive at once (all made with the same options): what
		// one of them is given in the meantime is no business of the others
		var late []int
		for n := 1 + r.Intn(2); n > 0; n-- {
			b2 := h.add(vm.Op{K: "bld", A: key, Ent: entropy(r), RootID: h.ids[key], Base: h.base, Out: h.slot()})
			blds = append(blds, b2)
			h.add(vm.Op{K: "bldadd", A: b2, Blk: blkp(g.Block(3, 1, 1))})
			if r.Intn(2) == 0 {
				h.add(vm.Op{K: "bldadd", A: bld, Blk: blkp(g.Block(2, 1, 0))})
			}
			late = append(late, b2)
		}
		r.Shuffle(len(late), func(i, j int) { late[i], late[j] = late[j], late[i] })
		for _, b2 := range late {
			t := h.add(vm.Op{K: "bldbuild", A: b2, Out: h.slot()})
			h.toks = append(h.toks, t)
			h.honest = append(h.honest, t)
			h.tokKey[t] = key
		}
	}
	t0 := h.add(vm.Op{K: "bldbuild", A: bld, Out: h.slot()})
	h.toks = append(h.toks, t0)
	h.honest = append(h.honest, t0)
	h.tokKey[t0] = key
	if r.Intn(4) == 0 { // a deep chain forked at its tip (fresh or reloaded), then observed while the family grows
		h.deepFork(2+r.Intn(6), 2+r.Intn(2), r.Intn(2) == 0)
	}
	steps := 6 + r.Intn(25)
	if tier == "thorough" {
		steps = 6 + r.Intn(35)
	}
	for i := 0; i < steps; i++ {
		switch x := r.Intn(20); {
		case x < 4: // create a block builder from some live unsealed token (several alive at once)
			p := h.pick(h.honest)
			if r.Intn(2) == 0 && len(bbs) > 0 {
				p = bbParent[bbs[len(bbs)-1]] // bias: same parent as the previous builder
			}
			bb := h.add(vm.Op{K: "bb", A: p, Out: h.slot()})
			bbs = append(bbs, bb)
			bbParent[bb] = p
		case x < 8: // add to some builder
			if len(bbs) == 0 {
				continue
			}
			h.add(vm.Op{K: "bbadd", A: h.pick(bbs), Blk: blkp(g.Block(2, 1, 1))})
		case x < 10: // build a block
			if len(bbs) == 0 {
				continue
			}
			bi := r.Intn(len(bbs))
			bb := bbs[bi]
			k := h.add(vm.Op{K: "bbbuild", A: bb, Out: h.slot()})
			blks = append(blks, k)
			blkParent[k] = bbParent[bb]
			// a block builder is retired once built (re-using it is outside the property)
			bbs = append(bbs[:bi:bi], bbs[bi+1:]...)
		case x < 13: // append a built block to its parent
			if len(blks) == 0 {
				continue
			}
			k := h.pick(blks)
			p := blkParent[k]
			if q := h.pick(h.honest); r.Intn(6) == 0 && q != p {
				// a block built for one member of the family offered to another: refused (symbol
				// overlap) or accepted, and either way nobody else changes
				t := h.add(vm.Op{K: "append", A: q, B: k, Ent: entropy(r), Out: h.slot()})
				h.toks = append(h.toks, t)
				h.tokKey[t] = key
				continue
			}
			t := h.add(vm.Op{K: "append", A: p, B: k, Ent: entropy(r), Out: h.slot()})
			h.toks = append(h.toks, t)
			h.honest = append(h.honest, t)
			h.tokKey[t] = key
		case x < 14:
			h.sealRandom()
		case x < 15:
			t := h.pick(h.toks)
			nt := h.receive(h.send(t), false)
			isSealed := false
			for _, s := range h.sealed {
				if s == t {
					isSealed = true
				}
			}
			if !isSealed {
				h.honest = append(h.honest, nt)
			}
		case x < 16: // look up a fact with fresh symbols
			f := g.Fact()
			if r.Intn(2) == 0 {
				f = ref.Pred{Name: "never_seen_before", Terms: []ref.Term{ref.Str("brand new string"), ref.Str("another")}}
			}
			h.add(vm.Op{K: "blockid", A: h.pick(h.toks), F: &f})
		case x < 17:
			h.verifyTok(h.pick(h.toks), key)
		case x < 18:
			h.add(vm.Op{K: "print", A: h.pick(h.toks)})
		case x < 19: // keep using a token builder after it has been built
			b := h.pick(blds)
			switch r.Intn(3) {
			case 0:
				h.add(vm.Op{K: "bldadd", A: b, Blk: blkp(g.Block(2, 1, 0))})
			case 1: // only the context changes between two builds
				h.add(vm.Op{K: "bldadd", A: b, Blk: &ref.Block{Context: fmt.Sprintf("context-%d", r.Intn(1000))}})
			}
			t := h.add(vm.Op{K: "bldbuild", A: b, Ent: entropy(r), Out: h.slot()})
			h.toks = append(h.toks, t)
			h.honest = append(h.honest, t)
			h.tokKey[t] = key
		default:
			h.attenuateRandom()
		}
	}
	_ = gen.TrueQuery
	// authorization behaviour is part of a token's observable content: the same request is put to
	// up to three tokens of the family early (right after the first steps) and again at the very
	// end; the two answers of each token form an agreement group (model-free)
	if r.Intn(2) == 0 {
		az := h.az[0]
		var early, late []vm.Op
		for i, t := range h.toks {
			if i >= 3 {
				break
			}
			name := fmt.Sprintf("behaviour-%d", t)
			op := vm.Op{K: "verify", A: t, KS: &vm.KeySel{Key: key}, Az: &az, Lim: &vm.Lim{MaxDurNs: 2e6}, Name: name}
			early = append(early, op)
			late = append(late, op)
		}
		// insert the early observations after the operations that created these tokens
		cut := 0
		for i, op := range h.p.Ops {
			for _, e := range early {
				if op.Out == e.A {
					cut = i + 1
				}
			}
		}
		ops := append([]vm.Op{}, h.p.Ops[:cut]...)
		ops = append(ops, early...)
		ops = append(ops, h.p.Ops[cut:]...)
		h.p.Ops = append(ops, late...)
		// and a quarter of these runs evaluate under clock stalls, with goroutines that outlive a
		// timed-out evaluation left running during the operations that follow
		if r.Intn(2) == 0 {
			schedule(r, h.p, "stall", 1e9, 20+r.Intn(300))
		}
	}
	return h.p
}

// genC08Directed: base histories of C08's stall sweep. Two siblings of one parent; the same request
// is put to sibling B before and after a (to be stalled) evaluation on sibling A; the sweep places
// the deadline at every scheduler step and lets what A's evaluation leaves behind run on.
func genC08Directed(r *rand.Rand, run int) *vm.Plan {
	h := newHist(r, 1, false)
	g := h.g
	key := h.issuers[0]
	v := ref.Var
	auth := g.BlockFor(nil, 2, 1, 0)
	n := 2 + r.Intn(3)
	for i := 0; i < n; i++ {
		auth.Facts = append(auth.Facts, ref.Pred{Name: "unit", Terms: []ref.Term{ref.Int(int64(i))}})
	}
	t := h.build(key, auth, nil)
	a := h.attenuate(t, ref.Block{Rules: []ref.Rule{{Head: ref.Pred{Name: "granted", Terms: []ref.Term{v("a")}}, Body: []ref.Pred{{Name: "unit", Terms: []ref.Term{v("a")}}, {Name: "unit", Terms: []ref.Term{v("b")}}}}},
		Checks: []ref.Check{{Queries: []ref.Rule{{Head: ref.Pred{Name: "query"}, Body: []ref.Pred{{Name: "granted", Terms: []ref.Term{v("x")}}}}}}}})
	b := h.attenuate(t, ref.Block{Checks: []ref.Check{{Queries: []ref.Rule{{Head: ref.Pred{Name: "query"}, Body: []ref.Pred{{Name: "granted", Terms: []ref.Term{ref.Int(int64(r.Intn(n)))}}}}}}}})
	lim := &vm.Lim{MaxDurNs: 2e6}
	// the authorizer derives "granted" itself for A's request, nothing for B's
	azA := ref.Authz{Rules: []ref.Rule{{Head: ref.Pred{Name: "granted", Terms: []ref.Term{v("a")}}, Body: []ref.Pred{{Name: "unit", Terms: []ref.Term{v("a")}}, {Name: "unit", Terms: []ref.Term{v("b")}}}}},
		Policies: []ref.Policy{{Allow: true, Queries: []ref.Rule{gen.TrueQuery()}}}}
	azB := ref.Authz{Policies: []ref.Policy{{Allow: true, Queries: []ref.Rule{{Head: ref.Pred{Name: "query"}, Body: []ref.Pred{{Name: "granted", Terms: []ref.Term{v("x")}}}}}}, {Allow: false, Queries: []ref.Rule{gen.TrueQuery()}}}}
	qB := []ref.Rule{{Head: ref.Pred{Name: "granted", Terms: []ref.Term{v("x")}}, Body: []ref.Pred{{Name: "granted", Terms: []ref.Term{v("x")}}}}}
	h.add(vm.Op{K: "verify", A: b, KS: &vm.KeySel{Key: key}, Az: &azB, Qs: qB, Lim: lim, Name: "behaviour-b"})
	h.add(vm.Op{K: "verify", A: a, KS: &vm.KeySel{Key: key}, Az: &azA, Lim: lim})
	if run%2 == 0 {
		h.add(vm.Op{K: "verify", A: a, KS: &vm.KeySel{Key: key}, Az: &azA, Lim: lim})
	}
	h.add(vm.Op{K: "verify", A: b, KS: &vm.KeySel{Key: key}, Az: &azB, Qs: qB, Lim: lim, Name: "behaviour-b"})
	h.add(vm.Op{K: "print", A: b})
	h.p.Note = "directed"
	return h.p
}

func c08SweepN(tier string) int {
	if tier == "thorough" {
		return 80
	}
	return 8
}

func init() {
	register(&Spec{
		ID: "C08", Level: "exploration", Quick: 2500, Thorough: 250000,
		Rule: "interleaved histories (6-40 steps) over a growing family of tokens, token builders, block builders and built blocks sharing ancestors: create-block (several builders alive per parent), add to builder A / builder B, build block, append (to the parent, or offered to another member of the family, where it is refused for overlapping symbols or accepted), build a token again from a used builder, seal, serialize, reload, get-block-id with fresh symbols, authorize, print. After EVERY step the fingerprint (String, Code, serialized bytes, revocation ids, block count, root key id, context) of EVERY live token and built block is recomputed and must be unchanged; on creation each token's bytes are decoded independently and must equal what its own callers put in. non-trivial = at least two live objects were re-fingerprinted after a deriving step (distinct by plan hash)",
		Gen: func(r *rand.Rand, run int, tier string) *vm.Plan {
			if run < c08SweepN(tier) {
				return genC08Directed(r, run)
			}
			return genC08(r, run, tier)
		},
		Sweep:  sweepStallsLazy,
		SweepN: c08SweepN,
		Oracles: func(m *vm.VM) []vm.Oracle {
			return []vm.Oracle{vm.Common{Prop: "C08"}, vm.ImmutOracle{Prop: "C08"}, vm.AgreeOracle{Prop: "C08", Invariant: "authorization-behaviour-changed", Failed: true, Queries: true, SameAz: true}, vm.RootIDOracle{}, vm.RevocationOracle{}, vm.WireOracle{}}
		},
		Nontrivial: func(res *vm.Result) bool { return res.Probes["immut_checked_2plus_live_objects"] > 0 },
		Real:       realAll, Simulated: simAll[2:4], Assumptions: assumeAll[:2],
	})
}

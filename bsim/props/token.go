package props

import (
	"encoding/hex"
	"fmt"
	"math/rand"

	"bsim/gen"
	"bsim/ref"
	"bsim/vm"
)

// hist generates multi-party histories: issuers build, holders attenuate /
// seal / serialize / reload, the adversary mutates bytes in flight, verifiers
// verify and authorize.
type hist struct {
	*pb
	g        *gen.G
	issuers  []int
	ids      map[int]*uint32 // root key id used by each issuer key slot
	attacker int
	toks     []int // live token slots (any kind)
	honest   []int // tokens known to be unsealed & honest (for attenuation)
	sealed   []int
	blobs    []int
	mutBlobs []int
	tokKey   map[int]int // token slot -> issuer key slot
	az       []ref.Authz
	base     []string // caller-supplied base symbol table of this history (nil = default)
}

func newHist(r *rand.Rand, nIssuers int, withIDs bool) *hist {
	h := &hist{pb: newPB(r), g: gen.New(r), ids: map[int]*uint32{}, tokKey: map[int]int{}}
	for i := 0; i < nIssuers; i++ {
		k := h.key(false)
		h.issuers = append(h.issuers, k)
		if withIDs {
			switch r.Intn(6) {
			case 0:
			case 1:
				h.ids[k] = u32p(0)
			case 2:
				h.ids[k] = u32p(1)
			case 3:
				h.ids[k] = u32p(1 << 31)
			case 4:
				h.ids[k] = u32p(1<<32 - 1)
			default:
				h.ids[k] = u32p(uint32(r.Intn(5)))
			}
		}
	}
	h.attacker = h.key(true)
	if r.Intn(6) == 0 {
		// issuer and readers agreed on a base symbol table of their own (WithSymbols / Unmarshaler.Symbols)
		pool := []string{"tenant-a", "zone", "eu-west", "quota", "svc/backend", h.g.Strs[0], "shared symbol"}
		seen := map[string]bool{}
		for _, i := range r.Perm(len(pool))[:2+r.Intn(3)] {
			if !seen[pool[i]] && pool[i] != "" {
				seen[pool[i]] = true
				h.base = append(h.base, pool[i])
			}
		}
	}
	for i := 0; i < 1+r.Intn(2); i++ {
		h.az = append(h.az, h.g.Authz(3, 2, 2, 2, 0))
	}
	return h
}

func (h *hist) pick(xs []int) int { return xs[h.r.Intn(len(xs))] }

func (h *hist) issue() int {
	k := h.pick(h.issuers)
	via := ""
	if h.r.Intn(5) == 0 && h.ids[k] == nil && len(h.base) == 0 {
		via = "new"
	}
	t := h.add(vm.Op{K: "build", Via: via, A: k, Blk: blkp(h.g.Block(4, 2, 2)), Ent: entropy(h.r), RootID: h.ids[k], Base: h.base, Out: h.slot()})
	h.toks = append(h.toks, t)
	h.honest = append(h.honest, t)
	h.tokKey[t] = k
	return t
}

func blkp(b ref.Block) *ref.Block { return &b }

func (h *hist) attenuateRandom() int {
	p := h.pick(h.honest)
	if h.r.Intn(8) == 0 {
		// the holder first looks for a fact the token does not have, spelled with strings it has never seen
		f := ref.Pred{Name: fmt.Sprintf("lookup_%d", h.r.Intn(3)), Terms: []ref.Term{ref.Str(fmt.Sprintf("unseen string %d", h.r.Intn(5))), ref.Int(int64(h.r.Intn(9)))}}
		h.add(vm.Op{K: "blockid", A: p, F: &f})
	}
	t := h.attenuate(p, h.g.Block(3, 2, 2))
	h.toks = append(h.toks, t)
	h.honest = append(h.honest, t)
	h.tokKey[t] = h.tokKey[p]
	return t
}

// deepFork builds a linear chain of the given depth and then derives several
// children from its tip (optionally after the tip went over the wire): the
// shape in which siblings share the most state with their parent.
func (h *hist) deepFork(depth, children int, reload bool) []int {
	t := h.issue()
	k := h.tokKey[t]
	for i := 0; i < depth; i++ {
		t = h.attenuate(t, h.g.Block(2, 1, 1))
		h.toks = append(h.toks, t)
		h.honest = append(h.honest, t)
		h.tokKey[t] = k
	}
	if reload {
		t = h.receive(h.send(t), true)
	}
	var out []int
	for i := 0; i < children; i++ {
		c := h.attenuate(t, h.g.Block(2, 1, 1))
		h.toks = append(h.toks, c)
		h.honest = append(h.honest, c)
		h.tokKey[c] = k
		out = append(out, c)
	}
	return out
}

func (h *hist) sealRandom() int {
	p := h.pick(h.honest)
	t := h.seal(p)
	h.toks = append(h.toks, t)
	h.sealed = append(h.sealed, t)
	h.tokKey[t] = h.tokKey[p]
	return t
}

func (h *hist) send(t int) int {
	b := h.ser(t)
	h.blobs = append(h.blobs, b)
	h.tokKey[-b] = h.tokKey[t]
	return b
}

func (h *hist) receive(b int, honestUnsealed bool) int {
	t := h.unm(b)
	h.toks = append(h.toks, t)
	h.tokKey[t] = h.tokKey[-b]
	if honestUnsealed {
		h.honest = append(h.honest, t)
	}
	return t
}

// attacker block using only default symbols, so that a legitimate append with a captured secret is schema-valid
func (h *hist) attackerBlock() string {
	in := &ref.Interner{}
	b := ref.Block{Facts: []ref.Pred{{Name: "right", Terms: []ref.Term{ref.Str("write"), ref.Int(int64(h.r.Intn(4)))}}}}
	if h.r.Intn(2) == 0 {
		b.Rules = []ref.Rule{{Head: ref.Pred{Name: "operation", Terms: []ref.Term{ref.Str("read")}}, Body: []ref.Pred{{Name: "resource", Terms: []ref.Term{ref.Var("resource")}}}}}
	}
	return hex.EncodeToString(in.LowerBlock(b).Encode())
}

var byteMuts = []string{"flip", "flip", "flip", "set", "trunc", "extend", "splice"}
var structMuts = []string{"swap_blocks", "drop_last", "drop_mid", "dup_block", "subst_sig", "subst_key", "subst_block", "subst_whole",
	"insert_attacker", "append_attacker", "replace_attacker", "append_captured", "rekey", "proof_from_donor", "proof_attacker_seal",
	"proof_attacker_secret", "seal_captured", "seal_sig_flip", "last_key_flip", "block_flip", "sig_flip", "key_flip", "secret_flip",
	"rootid", "alg", "unknown_field", "sig_len", "key_len", "secret_len",
	"proof_crafted", "proof_crafted", "proof_crafted", "forge_tail", "forge_tail", "forge_small_order"}

func (h *hist) mutation(kinds []string) vm.Mut {
	r := h.r
	mu := vm.Mut{Kind: kinds[r.Intn(len(kinds))], Pos: r.Intn(1 << 20), I: r.Intn(8), J: r.Intn(8), Val: r.Intn(256), Key: h.attacker}
	switch mu.Kind {
	case "extend":
		b := make([]byte, 1+r.Intn(8))
		r.Read(b)
		mu.Data = hex.EncodeToString(b)
	case "insert_attacker", "append_attacker", "replace_attacker", "append_captured", "forge_tail":
		mu.Data = h.attackerBlock()
	case "rootid":
		mu.Val = []int{-1, 0, 1, 2, 7}[r.Intn(5)]
	case "alg":
		mu.Val = 1 + r.Intn(3)
	case "sig_len", "key_len", "secret_len":
		mu.Val = []int{0, 1, 31, 32, 33, 63, 64, 65}[r.Intn(8)]
	}
	return mu
}

func (h *hist) mutate(blob int, kinds []string, n int) int {
	var muts []vm.Mut
	for i := 0; i < n; i++ {
		muts = append(muts, h.mutation(kinds))
	}
	donor := 0
	if len(h.blobs) > 0 {
		donor = h.pick(h.blobs)
	}
	nb := h.add(vm.Op{K: "mut", A: blob, B: donor, Muts: muts, Out: h.slot()})
	h.mutBlobs = append(h.mutBlobs, nb)
	h.tokKey[-nb] = h.tokKey[-blob]
	return nb
}

func (h *hist) verifyTok(t int, key int) {
	az := h.az[h.r.Intn(len(h.az))]
	ks := &vm.KeySel{Key: key}
	if h.r.Intn(4) == 0 {
		// the verifier holds a key source instead of one key: the issuer's key under the id its
		// builders were given (or as the default when they were given none), other keys elsewhere
		ks = &vm.KeySel{UseMap: true}
		other := h.pick(h.issuers)
		if id := h.ids[key]; id != nil {
			ks.Map = append(ks.Map, vm.KeyEntry{ID: *id, Key: key})
			if h.r.Intn(2) == 0 {
				ks.Def = other
			}
			if h.r.Intn(2) == 0 && *id != 0 {
				ks.Map = append(ks.Map, vm.KeyEntry{ID: 0, Key: other})
			}
		} else {
			if h.r.Intn(4) != 0 { // else: no default at all, a token without id finds no key
				ks.Def = key
			}
			if h.r.Intn(2) == 0 {
				ks.Map = append(ks.Map, vm.KeyEntry{ID: 0, Key: other})
			}
			if h.r.Intn(3) == 0 {
				ks.Map = append(ks.Map, vm.KeyEntry{ID: uint32(1 + h.r.Intn(3)), Key: other})
			}
		}
	}
	h.add(vm.Op{K: "verify", A: t, KS: ks, Az: &az, Lim: &vm.Lim{MaxDurNs: 1e9}})
}

// genReplayed is an honest history whose every drawing operation is fed the same 32 bytes: a
// deterministic entropy source is legal input (C17's premise of fresh entropy does not hold for it
// and uniqueness is not judged). Every block then announces the same key, and blocks of equal
// content that bring no new symbols are byte-identical signed blocks. Whatever the library makes of
// it by building, attenuating and sealing must still load and verify (C01, third sentence), and the
// sealed token must still stand for what the open one stands for (C09).
func genReplayed(r *rand.Rand, withIDs bool) *vm.Plan {
	h := newHist(r, 1, withIDs)
	h.base = nil
	plain := func() ref.Block {
		fs := []ref.Pred{
			{Name: "right", Terms: []ref.Term{ref.Str("read")}},
			{Name: "role", Terms: []ref.Term{ref.Str("admin")}},
			{Name: "operation", Terms: []ref.Term{ref.Str("write")}},
		}
		b := ref.Block{}
		if r.Intn(4) != 0 {
			b.Facts = fs[:1+r.Intn(3)]
		}
		if r.Intn(5) == 0 {
			b.Context = "same context"
		}
		return b
	}
	t := h.issue()
	key := h.tokKey[t]
	same := plain()
	for n := 1 + r.Intn(5); n > 0; n-- {
		blk := same
		switch r.Intn(4) {
		case 0:
			blk = plain()
		case 1:
			blk = h.g.Block(2, 1, 1)
		}
		t = h.attenuate(t, blk)
		h.toks = append(h.toks, t)
		h.honest = append(h.honest, t)
		h.tokKey[t] = key
	}
	if r.Intn(3) == 0 { // one built block appended twice in a row to the growing chain is refused or shifted
		// by upstream (built for another parent); two children of one parent are the supported form
		for n := 0; n < 2; n++ {
			c := h.attenuate(t, same)
			h.toks = append(h.toks, c)
			h.honest = append(h.honest, c)
			h.tokKey[c] = key
		}
	}
	s := h.seal(t)
	h.tokKey[s] = key
	h.toks = append(h.toks, s)
	if r.Intn(2) == 0 {
		x := h.pick(h.honest)
		s2 := h.seal(x)
		h.tokKey[s2] = key
		h.toks = append(h.toks, s2)
	}
	az := h.az[0]
	for _, x := range append([]int{}, h.toks...) {
		if r.Intn(3) == 0 && x != s && x != t {
			continue
		}
		nx := h.receive(h.send(x), false)
		h.tokKey[nx] = key
		h.add(vm.Op{K: "verify", A: x, KS: &vm.KeySel{Key: key}, Az: &az, Lim: &vm.Lim{MaxDurNs: 1e9}})
		h.add(vm.Op{K: "verify", A: nx, KS: &vm.KeySel{Key: key}, Az: &az, Lim: &vm.Lim{MaxDurNs: 1e9}})
		if x == t { // the reloaded open token is sealed by its receiver and travels again
			s3 := h.seal(nx)
			h.tokKey[s3] = key
			ns3 := h.receive(h.send(s3), false)
			h.tokKey[ns3] = key
			for _, y := range []int{s, s3, ns3} {
				h.add(vm.Op{K: "verify", A: y, KS: &vm.KeySel{Key: key}, Az: &az, Lim: &vm.Lim{MaxDurNs: 1e9}})
			}
		}
	}
	// one value for every source of the history (read scripts stay as drawn)
	var one string
	for i := range h.p.Ops {
		if e := h.p.Ops[i].Ent; e != nil {
			if one == "" {
				one = e.Bytes
			}
			e.Bytes = one
		}
	}
	h.p.Replayed = true
	h.p.Note = "replayed entropy"
	return h.p
}

// ---- C01

func genC01(r *rand.Rand, run int, tier string) *vm.Plan {
	if run%16 == 9 {
		return genReplayed(r, run%3 == 0)
	}
	h := newHist(r, 1+r.Intn(2), run%3 == 0)
	nt := 1 + r.Intn(3)
	for i := 0; i < nt; i++ {
		h.issue()
		for k := r.Intn(4); k > 0; k-- {
			h.attenuateRandom()
		}
	}
	if r.Intn(4) == 0 { // a deep chain forked at its tip: every sibling must still verify
		h.deepFork(2+r.Intn(6), 2+r.Intn(2), r.Intn(2) == 0)
	}
	if r.Intn(12) == 0 { // a long chain (9-16 blocks): whatever is done per block must be done for every block
		h.deepFork(8+r.Intn(7), 1, r.Intn(2) == 0)
	}
	if r.Intn(250) == 0 { // and now and then a very long one (31-34 appended blocks)
		h.deepFork(30+r.Intn(4), 1, r.Intn(2) == 0)
	}
	if r.Intn(2) == 0 {
		h.sealRandom()
	}
	// every token travels; honest delivery is verified (third sentence of the property)
	var sent []int
	for _, t := range h.toks {
		if r.Intn(3) != 0 || len(sent) == 0 {
			sent = append(sent, h.send(t))
		}
	}
	for _, b := range sent {
		if r.Intn(2) == 0 {
			t := h.receive(b, false)
			h.verifyTok(t, h.tokKey[-b])
			if r.Intn(4) == 0 { // another issuer's key must not verify it
				h.verifyTok(t, h.pick(h.issuers))
			}
		}
	}
	// the adversary mutates copies in flight
	nm := 2 + r.Intn(5)
	for i := 0; i < nm; i++ {
		b := h.pick(sent)
		var mb int
		if r.Intn(4) == 0 {
			mb = h.mutate(b, byteMuts, 1+r.Intn(2))
		} else {
			mb = h.mutate(b, structMuts, 1+r.Intn(3)/2)
		}
		t := h.receive(mb, false)
		h.verifyTok(t, h.tokKey[-b])
		if r.Intn(3) == 0 { // the verifier is asked again about the same token object (a retry, another request)
			h.verifyTok(t, h.tokKey[-b])
			if r.Intn(2) == 0 {
				h.verifyTok(t, h.pick(h.issuers))
				h.verifyTok(t, h.tokKey[-b])
			}
		}
	}
	return h.p
}

func init() {
	register(&Spec{
		ID: "C01", Level: "exploration", Quick: 2500, Thorough: 250000,
		Rule: "multi-party histories: 1-2 issuers build tokens, holders attenuate 0-3 times and sometimes seal, every token is serialized; honest bytes are reloaded and verified under the right and under a wrong root key, a quarter of the time by a verifier holding a key source (ids + default) instead of one key; a third of the histories give the builders a root key id; an adversary holding only its own keys and the bytes it has seen applies 1-3 mutations per message (bit flip, byte set, truncation, extension, splice; block swap / drop / duplicate; signature, key, block substitution from a donor token; attacker-signed block insert / append / replace; re-keying with re-signed successors; proof replacement; seal with captured secret; seal-signature, last-key, secret flips; root id, algorithm, unknown field, wrong lengths) and the result is presented to Unmarshal + AuthorizerFor. Oracle: independent wire decoder + ed25519 chain walk + key ledger. non-trivial = a mutated token decoded at envelope level and reached signature verification (distinct by plan hash)",
		Gen: genC01,
		Oracles: func(m *vm.VM) []vm.Oracle {
			return []vm.Oracle{vm.Common{Prop: "C01"}, vm.ChainOracle{Prop: "C01"}, vm.UnmarshalOracle{Prop: "C01"}, vm.RootIDOracle{}, vm.RevocationOracle{}}
		},
		Nontrivial: func(res *vm.Result) bool { return res.Probes["chain_mutated_token_reached_verification"] > 0 },
		Real:       realAll, Simulated: simAll[2:4], Assumptions: assumeAll[:2],
	})
}

// ---- C07

func genC07(r *rand.Rand, run int, tier string) *vm.Plan {
	h := newHist(r, 1+r.Intn(2), true)
	h.g = gen.New(r)
	nt := 1 + r.Intn(2)
	for i := 0; i < nt; i++ {
		h.issue()
		for k := r.Intn(4); k > 0; k-- {
			h.attenuateRandom()
		}
	}
	if r.Intn(3) == 0 {
		h.sealRandom()
	}
	for _, t := range append([]int{}, h.toks...) {
		b := h.send(t)
		if r.Intn(3) != 0 {
			nt := h.receive(b, false)
			if r.Intn(2) == 0 {
				az := h.az[0]
				h.add(vm.Op{K: "verify", A: t, KS: &vm.KeySel{Key: h.tokKey[t]}, Az: &az, Lim: &vm.Lim{MaxDurNs: 1e9}})
				h.add(vm.Op{K: "verify", A: nt, KS: &vm.KeySel{Key: h.tokKey[t]}, Az: &az, Lim: &vm.Lim{MaxDurNs: 1e9}})
			}
			if r.Intn(3) == 0 { // second hop: reload, attenuate, send again
				t2 := h.attenuate(nt, h.g.Block(2, 1, 1))
				h.tokKey[t2] = h.tokKey[t]
				h.receive(h.send(t2), false)
			}
		}
	}
	// version gate: an authority-only token whose version is rewritten and re-signed by its issuer
	if r.Intn(2) == 0 {
		k := h.pick(h.issuers)
		t := h.add(vm.Op{K: "build", A: k, Blk: blkp(h.g.Block(2, 1, 1)), Ent: entropy(r), Out: h.slot()})
		b := h.ser(t)
		mb := h.add(vm.Op{K: "mut", A: b, Muts: []vm.Mut{{Kind: "version", Val: []int{2, 4, -1, 0, 1, 5, 1 << 20}[r.Intn(7)], Key: k}}, Out: h.slot()})
		h.unm(mb)
	}
	return h.p
}

func init() {
	register(&Spec{
		ID: "C07", Level: "exploration", Quick: 2500, Thorough: 250000,
		Rule: "honest multi-party histories (build via Builder or biscuit.New, attenuate, seal, serialize, reload, attenuate the reloaded token, serialize again) over block contents from the typed generator (every term type, sets, nested expressions, default and fresh symbols, symbols shared across blocks, contexts); every serialized message is decoded by the independent wire reader and compared with what the callers supplied, re-serialization must be byte-identical, reloaded tokens must print / identify / authorize like the originals, and an issuer-re-signed block with version 2/4/absent/... must be rejected. non-trivial = at least one honest message decoded and compared (distinct by plan hash); probes count every term kind and operator seen on the wire",
		Gen: genC07,
		Oracles: func(m *vm.VM) []vm.Oracle {
			return []vm.Oracle{vm.Common{Prop: "C07"}, vm.WireOracle{}, vm.UnmarshalOracle{Prop: "C07"}, vm.RootIDOracle{}, vm.RevocationOracle{}, vm.ImmutOracle{Prop: "C08"}}
		},
		Nontrivial: func(res *vm.Result) bool { return res.Probes["wire_honest_message_decoded"] > 0 },
		Real:       realAll, Simulated: simAll[2:4], Assumptions: assumeAll[:2],
	})
}

// ---- C09

var sealMuts = []string{"seal_sig_flip", "last_key_flip", "block_flip", "sig_flip", "proof_attacker_seal", "proof_from_donor", "drop_last", "swap_blocks", "subst_block", "flip",
	"forge_tail", "forge_tail", "proof_crafted", "rekey", "replace_attacker", "key_flip"}

func genC09(r *rand.Rand, run int, tier string) *vm.Plan {
	if run%12 == 7 {
		return genReplayed(r, run%2 == 0)
	}
	h := newHist(r, 1, r.Intn(2) == 0)
	t := h.issue()
	for k := []int{0, 0, 1, 2, 3, 5}[r.Intn(6)]; k > 0; k-- {
		t = h.attenuate(t, h.g.Block(3, 2, 2)) // a linear chain: every block of it is in the sealed token
		h.toks = append(h.toks, t)
		h.honest = append(h.honest, t)
		h.tokKey[t] = h.issuers[0]
	}
	key := h.tokKey[t]
	if r.Intn(2) == 0 {
		// the holder has already handed out attenuated children of this very object before it seals it
		// (whatever the object remembers from signing for them must not unfreeze the sealed token)
		for n := 1 + r.Intn(2); n > 0; n-- {
			c := h.attenuate(t, h.g.Block(2, 1, 1))
			h.tokKey[c] = key
		}
	}
	s := h.seal(t)
	h.tokKey[s] = key
	sb := h.send(s)
	rs := h.receive(sb, false)
	tb := h.send(t)
	for _, az := range h.az {
		az := az
		// a third of the comparisons under limits that matter: whatever the verifier configures
		// applies to the sealed token exactly as to the open one
		lim := &vm.Lim{MaxDurNs: 1e9}
		switch r.Intn(6) {
		case 0:
			lim.MaxFacts = 2 + r.Intn(12)
		case 1:
			lim.MaxIter = 1 + r.Intn(2)
		}
		for _, x := range []int{t, s, rs} {
			h.add(vm.Op{K: "verify", A: x, KS: &vm.KeySel{Key: key}, Az: &az, Lim: lim})
		}
	}
	// the holder that seals may have received the token over the wire: seal the reloaded object,
	// send that, reload again (sealed form must survive; it must stay frozen)
	if r.Intn(2) == 0 {
		tr := h.receive(tb, false)
		h.tokKey[tr] = key
		s2 := h.seal(tr)
		h.tokKey[s2] = key
		rs2 := h.receive(h.send(s2), false)
		h.tokKey[rs2] = key
		az := h.az[0]
		for _, x := range []int{tr, s2, rs2} {
			h.add(vm.Op{K: "verify", A: x, KS: &vm.KeySel{Key: key}, Az: &az, Lim: &vm.Lim{MaxDurNs: 1e9}})
		}
		h.add(vm.Op{K: "attenuate", A: rs2, Blk: blkp(h.g.Block(1, 1, 1)), Ent: entropy(r), Out: h.slot()})
		h.add(vm.Op{K: "seal", A: rs2, Out: h.slot()})
	}
	// the same root key must also be found through the token's root key id
	if id := h.ids[key]; id != nil {
		az := h.az[0]
		for _, x := range []int{t, s, rs} {
			h.add(vm.Op{K: "verify", A: x, KS: &vm.KeySel{UseMap: true, Map: []vm.KeyEntry{{ID: *id, Key: key}}}, Az: &az, Lim: &vm.Lim{MaxDurNs: 1e9}})
		}
	}
	// neither extended nor sealed again: fresh and reloaded
	for _, x := range []int{s, rs} {
		h.add(vm.Op{K: "attenuate", A: x, Blk: blkp(h.g.Block(2, 1, 1)), Ent: entropy(r), Out: h.slot()})
		h.add(vm.Op{K: "seal", A: x, Out: h.slot()})
	}
	// tampering with the sealed envelope in transit
	for i := 0; i < 1+r.Intn(4); i++ {
		mu := h.mutation(sealMuts)
		mb := h.add(vm.Op{K: "mut", A: sb, B: tb, Muts: []vm.Mut{mu}, Out: h.slot()})
		h.tokKey[-mb] = key
		mt := h.receive(mb, false)
		h.verifyTok(mt, key)
	}
	return h.p
}

func init() {
	register(&Spec{
		ID: "C09", Level: "exploration", Quick: 2000, Thorough: 200000,
		Rule: "seal / reload / extend / tamper histories: a token with 0-5 later blocks is sealed; the unsealed token, the sealed token and the sealed token reloaded from bytes are verified and authorized with the same authorizer contents and the same limits, a third of the time limits that matter (twin agreement on verification result, verdict class and failed checks; equal revocation ids); Append and Seal are attempted on the sealed and on the reloaded sealed token (all four must fail); the adversary alters the seal signature, the last block, the last announced key, replaces the proof, drops or swaps blocks of the sealed envelope, which must then be rejected (reference chain walk). non-trivial = a sealed/unsealed twin pair was compared (distinct by plan hash)",
		Gen: genC09,
		Oracles: func(m *vm.VM) []vm.Oracle {
			return []vm.Oracle{vm.Common{Prop: "C09"}, vm.SealOracle{}, vm.ChainOracle{Prop: "C09"}, vm.UnmarshalOracle{Prop: "C09"}, vm.RevocationOracle{}, vm.ImmutOracle{Prop: "C08"}}
		},
		Nontrivial: func(res *vm.Result) bool { return res.Probes["seal_twin_compared"] > 0 },
		Real:       realAll, Simulated: simAll[2:4], Assumptions: assumeAll[:2],
	})
}

// ---- C16

func genC16(r *rand.Rand, run int, tier string) *vm.Plan {
	h := newHist(r, 2+r.Intn(2), true)
	var leaves []int
	for _, k := range h.issuers {
		_ = k
		t := h.issue()
		for n := r.Intn(3); n > 0; n-- {
			t = h.attenuate(t, h.g.Block(2, 1, 1))
			h.tokKey[t] = h.tokKey[h.toks[len(h.toks)-1]]
			h.toks = append(h.toks, t)
		}
		switch r.Intn(4) {
		case 0:
			s := h.seal(t)
			h.tokKey[s] = h.tokKey[t]
			t = s
		case 1:
			nt := h.receive(h.send(t), false)
			t = nt
		case 2:
			s := h.seal(t)
			h.tokKey[s] = h.tokKey[t]
			t = h.receive(h.send(s), false)
		}
		leaves = append(leaves, t)
	}
	// verifiers with key maps: sometimes the right key under a wrong id, the wrong key under the right id
	ids := []uint32{0, 1, 2, 1 << 31, 1<<32 - 1, 3, 4}
	for i := 0; i < 2+r.Intn(4); i++ {
		ks := &vm.KeySel{UseMap: true}
		used := map[uint32]bool{}
		for n := r.Intn(5); n > 0; n-- {
			var id uint32
			if r.Intn(2) == 0 {
				k := h.pick(h.issuers)
				if h.ids[k] != nil {
					id = *h.ids[k]
				}
			} else {
				id = ids[r.Intn(len(ids))]
			}
			if used[id] {
				continue
			}
			used[id] = true
			ks.Map = append(ks.Map, vm.KeyEntry{ID: id, Key: h.pick(h.issuers)})
		}
		if r.Intn(2) == 0 {
			ks.Def = h.pick(h.issuers)
		}
		t := h.pick(leaves)
		if r.Intn(5) == 0 { // the id is rewritten in transit
			b := h.send(t)
			mb := h.add(vm.Op{K: "mut", A: b, Muts: []vm.Mut{{Kind: "rootid", Val: []int{-1, 0, 1, 2, 3}[r.Intn(5)]}}, Out: h.slot()})
			t = h.receive(mb, false)
		} else if r.Intn(6) == 0 {
			// the adversary presents a token of its own making that needs no private key: it is signed
			// "by" the all-zero bytes, which no verifier holds as a key
			b := h.send(t)
			mb := h.add(vm.Op{K: "mut", A: b, Muts: []vm.Mut{{Kind: "forge_small_order", Key: h.attacker, Val: r.Intn(256)}}, Out: h.slot()})
			t = h.receive(mb, false)
		}
		// boundary configurations: a default key that is configured but nil / empty, ids registered with an empty key
		if r.Intn(8) == 0 {
			ks.DefEmpty = true
		}
		if r.Intn(8) == 0 {
			ks.Empty = append(ks.Empty, ids[r.Intn(len(ids))])
		}
		az := h.az[0]
		h.add(vm.Op{K: "verify", A: t, KS: ks, Az: &az, Lim: &vm.Lim{MaxDurNs: 1e9}})
		// the verifier rotates one of its registered keys in place and is asked again about the same token object
		if r.Intn(5) == 0 && (len(ks.Map) > 0 || ks.Def > 0) {
			slot := ks.Def
			if len(ks.Map) > 0 && (slot == 0 || r.Intn(2) == 0) {
				slot = ks.Map[r.Intn(len(ks.Map))].Key
			}
			if slot > 0 {
				h.add(vm.Op{K: "keyrot", A: slot, B: h.attacker})
				h.add(vm.Op{K: "verify", A: t, KS: ks, Az: &az, Lim: &vm.Lim{MaxDurNs: 1e9}})
				break // the rotated slot no longer belongs to an issuer: end of this history
			}
		}
	}
	return h.p
}

func init() {
	register(&Spec{
		ID: "C16", Level: "exploration", Quick: 2500, Thorough: 250000,
		Rule: "derivation histories x key maps: 2-3 issuers with root key ids from {absent, 0, 1, 2^31, 2^32-1, small random}; tokens are attenuated, sealed, serialized and reloaded in every order; verifiers use WithRootPublicKeys with 0-4 entries (the right key under a wrong id, wrong keys under the right id) and an optional default; the id is sometimes rewritten in transit. Oracle: ledger of ids (every honest descendant reports the id given at creation) and exact-key selection (accepted iff the key registered under the token's id, or the default when it has none, verifies the chain; 'no public key available' when there is none). non-trivial = a key-map selection was checked (distinct by plan hash)",
		Gen: genC16,
		Oracles: func(m *vm.VM) []vm.Oracle {
			// a token that does not come back from its own serialization reports no identifier at all
			return []vm.Oracle{vm.Common{Prop: "C16"}, vm.RootIDOracle{}, vm.RevocationOracle{}, vm.UnmarshalOracle{Prop: "C16"}}
		},
		Nontrivial: func(res *vm.Result) bool { return res.Probes["rootid_selection_checked"] > 0 },
		Real:       realAll, Simulated: simAll[2:4], Assumptions: assumeAll[:2],
	})
}

// ---- C17

func genC17(r *rand.Rand, run int, tier string) *vm.Plan {
	h := newHist(r, 1+r.Intn(2), r.Intn(2) == 0)
	t := h.issue()
	if r.Intn(3) == 0 { // deep chain, forked at its tip (fresh or reloaded)
		h.deepFork(2+r.Intn(6), 2+r.Intn(2), r.Intn(2) == 0)
	}
	// identical twins: same content issued twice, appended twice to the same parent and to different parents
	same := h.g.Block(2, 1, 1)
	if r.Intn(6) == 0 { // a block of more than a kilobyte (whatever is done differently for large payloads)
		big := make([]byte, 1100+r.Intn(200))
		for i := range big {
			big[i] = byte('a' + (i*7+len(big))%26)
		}
		same.Context = string(big)
	}
	for i := 0; i < 2+r.Intn(5); i++ {
		switch r.Intn(7) {
		case 0:
			k := h.pick(h.issuers)
			for n := 0; n < 2; n++ {
				nt := h.add(vm.Op{K: "build", A: k, Blk: blkp(same), Ent: entropy(r), RootID: h.ids[k], Out: h.slot()})
				h.toks = append(h.toks, nt)
				h.honest = append(h.honest, nt)
				h.tokKey[nt] = k
			}
		case 1:
			// one built block (one object) appended twice to the same parent
			p := h.pick(h.honest)
			bb := h.add(vm.Op{K: "bb", A: p, Out: h.slot()})
			h.add(vm.Op{K: "bbadd", A: bb, Blk: blkp(same)})
			bk := h.add(vm.Op{K: "bbbuild", A: bb, Out: h.slot()})
			for n := 0; n < 2; n++ {
				nt := h.add(vm.Op{K: "append", A: p, B: bk, Ent: entropy(r), Out: h.slot()})
				h.toks = append(h.toks, nt)
				h.honest = append(h.honest, nt)
				h.tokKey[nt] = h.tokKey[p]
			}
		case 2:
			p := h.pick(h.honest)
			for n := 0; n < 2; n++ {
				nt := h.attenuate(p, same)
				h.toks = append(h.toks, nt)
				h.honest = append(h.honest, nt)
				h.tokKey[nt] = h.tokKey[p]
			}
		case 3:
			h.sealRandom()
		case 4:
			x := h.pick(h.toks)
			h.receive(h.send(x), false)
		default:
			h.attenuateRandom()
		}
	}
	_ = t
	return h.p
}

func init() {
	register(&Spec{
		ID: "C17", Level: "exploration", Quick: 2500, Thorough: 250000,
		Rule: "honest derivation histories with fresh simulated entropy per drawing operation, biased to identical twins (the same content issued twice by one issuer, appended twice to the same parent and to different parents), plus sealing and reloading; oracle: one id per block, ids of a derived token start with its parent's ids, id i equals the signature the independent decoder finds on block i, and a run-wide registry (id -> signing event) shows no id shared by two signing events. non-trivial = a derived token's ids were compared with its parent's (distinct by plan hash)",
		Gen: genC17,
		Oracles: func(m *vm.VM) []vm.Oracle {
			return []vm.Oracle{vm.Common{Prop: "C17"}, vm.RevocationOracle{}, vm.RootIDOracle{}, vm.ImmutOracle{Prop: "C08"}}
		},
		Nontrivial: func(res *vm.Result) bool { return res.Probes["revocation_prefix_checked"] > 0 },
		Real:       realAll, Simulated: simAll[2:4], Assumptions: assumeAll[:2],
	})
}

package props

import (
	"math/rand"

	"bsim/gen"
	"bsim/ref"
	"bsim/vm"
)

// builder of plans: slot allocator + op list
type pb struct {
	p    *vm.Plan
	next int
	r    *rand.Rand
}

func newPB(r *rand.Rand) *pb { return &pb{p: &vm.Plan{}, next: 1, r: r} }

func (b *pb) slot() int { s := b.next; b.next++; return s }

func (b *pb) add(op vm.Op) int {
	b.p.Ops = append(b.p.Ops, op)
	return op.Out
}

func (b *pb) key(attacker bool) int {
	op := vm.Op{K: "key", Out: b.slot(), Seed: seedHex(b.r)}
	if attacker {
		op.Flags = []string{"attacker"}
	}
	return b.add(op)
}

func (b *pb) build(key int, blk ref.Block, rootID *uint32) int {
	return b.add(vm.Op{K: "build", A: key, Blk: &blk, Ent: entropy(b.r), RootID: rootID, Out: b.slot()})
}

func (b *pb) attenuate(tok int, blk ref.Block) int {
	return b.add(vm.Op{K: "attenuate", A: tok, Blk: &blk, Ent: entropy(b.r), Out: b.slot()})
}

func (b *pb) seal(tok int) int { return b.add(vm.Op{K: "seal", A: tok, Out: b.slot()}) }
func (b *pb) ser(tok int) int  { return b.add(vm.Op{K: "ser", A: tok, Out: b.slot()}) }
func (b *pb) unm(blob int) int { return b.add(vm.Op{K: "unm", A: blob, Out: b.slot()}) }

func (b *pb) verify(tok, key int, az ref.Authz, lim *vm.Lim, via string, qs []ref.Rule) {
	b.add(vm.Op{K: "verify", A: tok, KS: &vm.KeySel{Key: key}, Az: &az, Lim: lim, Via: via, Qs: qs})
}

// tokenChain builds an honest token with nb later blocks; returns key slot and the slots of every prefix token.
func (b *pb) tokenChain(g *gen.G, nb int, maxFacts, maxRules, maxChecks int) (int, []int) {
	key := b.key(false)
	t := b.build(key, g.Block(maxFacts, maxRules, maxChecks), nil)
	toks := []int{t}
	for i := 0; i < nb; i++ {
		t = b.attenuate(t, g.Block(maxFacts, maxRules, maxChecks))
		toks = append(toks, t)
	}
	return key, toks
}

// ---- C04

func genC04(r *rand.Rand, run int, tier string) *vm.Plan {
	g := gen.New(r)
	g.BoundaryInts()
	b := newPB(r)
	nb := []int{0, 0, 1, 1, 2, 3}[r.Intn(6)]
	key, toks := b.tokenChain(g, nb, 5, 3, 2)
	tok := toks[len(toks)-1]
	if r.Intn(4) == 0 { // through the wire
		tok = b.unm(b.ser(tok))
	}
	nv := 1 + r.Intn(3)
	for i := 0; i < nv; i++ {
		az := g.Authz(5, 3, 3, 4, 6)
		if r.Intn(40) == 0 {
			// many failing checks at once, around the sizes at which lists are usually cut or wrapped
			n := []int{15, 16, 17, 31, 32, 33, 63, 64, 65}[r.Intn(9)]
			for k := 0; k < n; k++ {
				az.Checks = append(az.Checks, ref.Check{Queries: []ref.Rule{{Head: ref.Pred{Name: "query"}, Body: []ref.Pred{{Name: "nobody_states_this", Terms: []ref.Term{ref.Int(int64(k))}}}}}})
			}
		}
		if r.Intn(30) == 0 {
			// the classic overflows of 64-bit arithmetic, each alone in a check (a failing expression
			// satisfies nothing) or as the first alternative of a check whose second alternative holds
			lo, hi := ref.Leaf(ref.Int(-1<<63)), ref.Leaf(ref.Int(1<<63-1))
			one, two, neg := ref.Leaf(ref.Int(1)), ref.Leaf(ref.Int(2)), ref.Leaf(ref.Int(-1))
			ov := []ref.Expr{ref.Bin("+", hi, one), ref.Bin("-", lo, one), ref.Bin("*", lo, neg), ref.Bin("*", neg, lo), ref.Bin("*", hi, two), ref.Bin("*", lo, two), ref.Bin("-", neg, hi), ref.Bin("+", lo, neg)}
			e := ref.Bin("<=", ov[r.Intn(len(ov))], ref.Leaf(ref.Int(0)))
			c := ref.Check{Queries: []ref.Rule{{Head: ref.Pred{Name: "query"}, Exprs: []ref.Expr{e}}}}
			if r.Intn(2) == 0 {
				c.Queries = append(c.Queries, gen.TrueQuery())
			}
			az.Checks = append(az.Checks, c)
		}
		var qs []ref.Rule
		if r.Intn(3) == 0 {
			qs = append(qs, g.Rule())
		}
		op := vm.Op{K: "verify", A: toks[r.Intn(len(toks))], KS: &vm.KeySel{Key: key}, Az: &az, Qs: qs, Lim: &vm.Lim{MaxDurNs: 1e9}}
		if i == 0 {
			op.A = tok
		}
		b.add(op)
	}
	mode := []string{"calm", "calm", "calm", "order", "order"}[r.Intn(5)]
	schedule(r, b.p, mode, 1e9, 0)
	b.p.Note = mode
	return b.p
}

func init() {
	register(&Spec{
		ID: "C04", Level: "exploration", Quick: 4000, Thorough: 400000,
		Rule: "tokens (0-3 later blocks) and authorizer contents from the typed generator G inside the specified fragment (error-free expressions in rules; uniformly failing expressions only in check/policy queries), verified with Authorize under calm or tape-ordered engine schedules with the clock frozen; the verdict class is compared with the reference decision procedure; non-trivial = a verdict was compared (distinct by plan hash); probes count each verdict class and the corners (failed check with a matching allow policy, a policy other than the first matching)",
		Gen: genC04,
		Oracles: func(m *vm.VM) []vm.Oracle {
			return []vm.Oracle{vm.Common{Prop: "C04"}, vm.VerdictOracle{Prop: "C04"}}
		},
		Nontrivial: func(res *vm.Result) bool {
			return res.Probes["verdict_allow"]+res.Probes["verdict_deny"]+res.Probes["verdict_nomatch"]+res.Probes["verdict_fail"] > 0
		},
		Real: realAll, Simulated: simAll[:3], Assumptions: assumeAll,
	})
}

// ---- C11 (b): limits through every constructor

func genC11Authz(r *rand.Rand, g *gen.G, p *vm.Plan) {
	b := &pb{p: p, next: 1, r: r}
	key := b.key(false)
	var auth ref.Block
	switch r.Intn(4) {
	case 0:
		auth = crossProduct(2 + r.Intn(5))
	case 1:
		auth = chain(2 + r.Intn(10))
	default:
		auth = g.Block(6, 3, 1)
	}
	tok := b.build(key, auth, nil)
	if r.Intn(2) == 0 {
		var blk ref.Block
		switch r.Intn(3) {
		case 0:
			blk = crossProduct(2 + r.Intn(4))
			// rename so that the block's rule does not collide with authority predicates
			blk.Checks = []ref.Check{{Queries: []ref.Rule{{Head: ref.Pred{Name: "query"}, Body: []ref.Pred{{Name: "c", Terms: []ref.Term{ref.Var("x"), ref.Var("y")}}}}}}}
		default:
			blk = g.Block(4, 2, 2)
		}
		tok = b.attenuate(tok, blk)
	}
	az := g.Authz(3, 2, 1, 2, 0)
	az.Policies = append(az.Policies, ref.Policy{Allow: true, Queries: []ref.Rule{gen.TrueQuery()}})
	// limits relative to the reference sizes of this very request
	abs := &ref.Token{Blocks: []ref.Block{auth}}
	o := ref.Authorize(abs, az, 600)
	n, d := o.AuthoritySize, o.AuthorityDepth
	mf := []int{1, 2, n - 1, n, n + 1, n + 2, 1000}[r.Intn(7)]
	mi := []int{1, d, d + 1, d + 2, 100, 100}[r.Intn(6)]
	if mf < 1 {
		mf = 1
	}
	if mi < 1 {
		mi = 1
	}
	lim := &vm.Lim{MaxFacts: mf, MaxIter: mi, MaxDurNs: []int64{2e6, 1e7, 1e9}[r.Intn(3)]}
	vias := []string{"AuthorizerFor", "Authorizer", "NewVerifier"}
	r.Shuffle(3, func(i, j int) { vias[i], vias[j] = vias[j], vias[i] })
	for _, via := range vias[:2+r.Intn(2)] {
		// sometimes the caller retries Authorize on the same authorizer after whatever happened
		b.add(vm.Op{K: "verify", A: tok, KS: &vm.KeySel{Key: key}, Az: &az, Lim: lim, Via: via, N: r.Intn(3) / 2})
	}
	p.Note = "authz"
}

func init() {
	register(&Spec{
		ID: "C11", Level: "exploration", Quick: 3000, Thorough: 300000,
		Rule: "(a) datalog.World and (b) Authorize through AuthorizerFor / Authorizer / NewVerifier, on terminating programs, programs exceeding maxFacts (cross products) or maxIterations (successor chains), ill-formed rules (unbound head variable with 0-3 matches) and expression errors on the n-th match; limit configurations drawn around the reference model's |lfp| and depth; clock stalls (just below / at / above the deadline, and 10x) at tape-chosen scheduler steps; after every call the scheduler drains all parked goroutines and takes a goroutine census. A fault-enumeration part places the stall at EVERY scheduler step of a fixed catalogue of small programs. non-trivial = a limit or a stall actually took effect, or an error return was followed by a census (distinct by plan hash)",
		Gen: func(r *rand.Rand, run int, tier string) *vm.Plan {
			n := 20
			if tier == "thorough" {
				n = 60
			}
			if run < n {
				return genC11Catalogue(r, run, tier)
			}
			return genC11(r, run, tier)
		},
		Sweep: sweepStalls,
		SweepN: func(tier string) int {
			if tier == "thorough" {
				return 60
			}
			return 20
		},
		Oracles: func(m *vm.VM) []vm.Oracle {
			return []vm.Oracle{vm.Common{Prop: "C11"}, vm.DLOracle{Prop: "C11"}, vm.VerdictOracle{Prop: "C04", Limits: true}}
		},
		Nontrivial: func(res *vm.Result) bool {
			return res.Faults["clock_stall"] > 0 || res.Probes["dl_limit:facts"]+res.Probes["dl_limit:iter"]+res.Probes["dl_limit:timeout"]+res.Probes["dl_other_error"] > 0 ||
				res.Probes["limit_certainly_exceeded"] > 0 || res.Probes["verdict_limit:facts"]+res.Probes["verdict_limit:iter"]+res.Probes["verdict_limit:timeout"] > 0
		},
		Real: realAll, Simulated: simAll[:3], Assumptions: assumeAll,
	})
}

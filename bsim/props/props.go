// Package props holds, per property, the workload generator (seed -> plan) and
// the oracles that decide the property over the executed plan.
package props

import (
	"encoding/hex"
	"math/rand"

	"bsim/sched"
	"bsim/vm"
)

type Spec struct {
	ID       string
	Level    string // evidence level
	Rule     string // what makes a run non-trivial
	Gen      func(r *rand.Rand, run int, tier string) *vm.Plan
	Oracles  func(m *vm.VM) []vm.Oracle
	Quick    int // runs per tier
	Thorough int
	Race     bool // needs the -race binary
	// Sweep, when set, expands one generated plan into the fault-enumeration
	// sub-plans (every scheduler step x stall durations).
	Sweep  func(base *vm.Plan, calm *vm.Result) []*vm.Plan
	SweepN func(tier string) int // runs [0,SweepN) are swept
	// RunPlan, when set, replaces vm.Run (C19 uses its own executor).
	RunPlan       func(p *vm.Plan, trace bool) *vm.Result
	ExtraCoverage map[string]interface{}
	// Nontrivial decides from the result whether the run reached the property's trigger.
	Nontrivial func(res *vm.Result) bool
	Real, Simulated []string
	Assumptions     []string
}

var Registry = map[string]*Spec{}

// runCounts is the calibration table: runs per tier, from measured throughput
// on 16 cores (quick ~30 s, thorough ~15-20 min per property).
var runCounts = map[string][2]int{
	"C01": {25000, 1000000}, "C02": {25000, 900000}, "C03": {40000, 1500000}, "C04": {50000, 2000000},
	"C05": {80000, 3000000}, "C07": {20000, 800000}, "C08": {30000, 1200000}, "C09": {15000, 600000},
	"C10": {25000, 900000}, "C11": {40000, 1500000}, "C12": {35000, 1400000}, "C13": {20000, 800000},
	"C16": {40000, 1500000}, "C17": {40000, 1500000}, "C18": {40000, 1400000}, "C19": {1200, 36000},
	"C20": {c20Enum + 20000, c20Enum + 1000000},
}

func register(s *Spec) {
	if c, ok := runCounts[s.ID]; ok {
		s.Quick, s.Thorough = c[0], c[1]
	}
	Registry[s.ID] = s
}

// Mix derives the per-run PRNG from the seed, the property and the run index.
func Mix(seed int64, prop string, run int) *rand.Rand {
	h := uint64(seed)*0x9E3779B97F4A7C15 + 0x1234567
	for i := 0; i < len(prop); i++ {
		h = (h ^ uint64(prop[i])) * 1099511628211
	}
	h ^= uint64(run+1) * 0xD6E8FEB86659FD93
	h ^= h >> 29
	return rand.New(rand.NewSource(int64(h)))
}

// Generate builds the plan for (property, seed, run).
// properties whose requests may also reach the authorizer through SerializePolicies / LoadPolicies
var viaLoad = map[string]bool{"C02": true, "C03": true, "C04": true, "C12": true, "C13": true}

var queryFirst = map[string]bool{"C02": true, "C03": true, "C04": true, "C12": true, "C13": true}

func Generate(id string, seed int64, run int, tier string) *vm.Plan {
	s := Registry[id]
	r := Mix(seed, id, run)
	p := s.Gen(r, run, tier)
	if viaLoad[id] && r.Intn(3) == 0 {
		// one more way of presenting authorizer content: as a stored policy file (a scratch
		// authorizer serializes it, the evaluating one loads it); drawn after the generator has
		// finished, so the histories themselves are what they were
		for i := range p.Ops {
			if k := p.Ops[i].K; (k == "verify" || k == "azadd") && p.Ops[i].Az != nil && r.Intn(3) == 0 {
				p.Ops[i].Flags = append(p.Ops[i].Flags, "via-load")
			}
		}
	}
	if queryFirst[id] && r.Intn(4) == 0 {
		// the verifier queries its authorizer before it authorizes (a fresh authorizer only: a query
		// on the way evaluates the world, which must not change what Authorize concludes)
		for i := range p.Ops {
			// (not under an iteration limit: the query's own evaluation does part of the rounds, so the
			// Authorize that follows needs fewer of them than one that starts from scratch)
			if p.Ops[i].K == "azauth" && r.Intn(2) == 0 {
				// a round of a long-lived authorizer (same caveat, the limit being the one it was created with)
				for j := range p.Ops[:i] {
					if c := &p.Ops[j]; c.K == "az" && c.Out == p.Ops[i].A && (c.Lim == nil || c.Lim.MaxIter == 0) {
						p.Ops[i].Flags = append(p.Ops[i].Flags, "query-before")
					}
				}
				continue
			}
			if p.Ops[i].K == "verify" && !p.Ops[i].Has("noauth") && (p.Ops[i].Lim == nil || p.Ops[i].Lim.MaxIter == 0) && r.Intn(2) == 0 {
				p.Ops[i].Flags = append(p.Ops[i].Flags, "query-before")
			}
		}
	}
	p.Property, p.Seed, p.Run = id, seed, run
	if p.Profile == "" {
		p.Profile = id
	}
	return p
}

// ---- shared generator helpers

func randTape(r *rand.Rand, n int) []uint32 {
	t := make([]uint32, n)
	for i := range t {
		t[i] = r.Uint32()
	}
	return t
}

// schedule draws a scheduling configuration: calm (oldest first, frozen
// clock), stormy order (frozen clock), or stormy with clock stalls.
func schedule(r *rand.Rand, p *vm.Plan, mode string, maxDurNs int64, horizon int) {
	switch mode {
	case "calm":
	case "order":
		p.Tape = randTape(r, 32+r.Intn(256))
	case "stall":
		if r.Intn(2) == 0 {
			p.Tape = randTape(r, 32+r.Intn(256))
		}
		// half of the stalled runs let goroutines that outlive their call (a worker after a
		// timeout) keep running in the middle of later calls instead of draining them first
		p.Lazy = r.Intn(2) == 0
		if p.Lazy && len(p.Tape) == 0 {
			p.Tape = randTape(r, 64)
		}
		n := 1 + r.Intn(3)
		for i := 0; i < n; i++ {
			var d int64
			switch r.Intn(6) {
			case 0:
				d = maxDurNs / 2
			case 1:
				d = maxDurNs - 1
			case 2:
				d = maxDurNs
			case 3:
				d = maxDurNs + 1
			case 4:
				d = maxDurNs * 10
			default:
				d = 1 + r.Int63n(maxDurNs)
			}
			if d <= 0 {
				d = 1
			}
			p.Faults = append(p.Faults, sched.Fault{Step: 1 + r.Intn(horizon), Kind: "stall", D: d})
		}
	}
}

// entropy is a healthy source with fresh bytes; a quarter of the sources deliver
// them in short reads (legal io.Reader behaviour: 1 byte at a time, uneven
// chunks, or with interleaved (0,nil) reads).
func entropy(r *rand.Rand) *vm.Entropy {
	b := make([]byte, 32)
	r.Read(b)
	if r.Intn(6) == 0 {
		// a deterministic source of the "label + counter" kind: seeds that share a long prefix
		copy(b, "bsim deterministic source #")
	}
	e := &vm.Entropy{Bytes: hex.EncodeToString(b)}
	switch r.Intn(12) {
	case 0:
		for i := 0; i < 32; i++ {
			e.Script = append(e.Script, vm.ReadStep{Kind: "short", N: 1})
		}
	case 1:
		for left := 32; left > 0; {
			n := 1 + r.Intn(left)
			e.Script = append(e.Script, vm.ReadStep{Kind: "short", N: n})
			left -= n
		}
	case 2:
		e.Script = []vm.ReadStep{{Kind: "zero"}, {Kind: "short", N: 1 + r.Intn(31)}, {Kind: "zero"}}
	case 3, 4: // the caller supplies no source: the library's default (crypto/rand.Reader, simulated) is read
		e.Default = true
	}
	return e
}

func seedHex(r *rand.Rand) string {
	b := make([]byte, 32)
	r.Read(b)
	return hex.EncodeToString(b)
}

func u32p(v uint32) *uint32 { return &v }

var realAll = []string{"biscuit-go/v2 (token, builder, authorizer, converters)", "biscuit-go/v2/datalog (engine, expressions, symbol table)", "biscuit-go/v2/pb + google.golang.org/protobuf", "crypto/ed25519"}
var simAll = []string{"goroutine scheduling of the datalog engine (yield scheduler in a synctest bubble)", "clock and timers (synctest fake clock, plan-driven stalls)", "entropy source (SimRand)", "transport / adversary (byte and structural mutations)", "disk (write/sync/crash with torn, short, lost, flipped writes)"}
var assumeAll = []string{"reference model (bsim/ref) is correct; it is validated against the repository's sample tokens", "crypto/ed25519, Go runtime and testing/synctest behave as documented", "the seven simYield call sites are the only points where engine goroutines interact"}

package props

import (
	"fmt"
	"math/rand"

	"bsim/gen"
	"bsim/ref"
	"bsim/sched"
	"bsim/vm"
)

// ---- C05: least fixpoint

func shapeProgram(r *rand.Rand, g *gen.G) (ref.Block, []ref.Rule) {
	var b ref.Block
	var qs []ref.Rule
	v := ref.Var
	switch r.Intn(8) {
	case 0: // transitive closure over a random small graph
		n := 2 + r.Intn(5)
		for i := 0; i < n+r.Intn(4); i++ {
			b.Facts = append(b.Facts, ref.Pred{Name: "edge", Terms: []ref.Term{ref.Int(int64(r.Intn(n))), ref.Int(int64(r.Intn(n)))}})
		}
		b.Rules = append(b.Rules,
			ref.Rule{Head: ref.Pred{Name: "path", Terms: []ref.Term{v("x"), v("y")}}, Body: []ref.Pred{{Name: "edge", Terms: []ref.Term{v("x"), v("y")}}}},
			ref.Rule{Head: ref.Pred{Name: "path", Terms: []ref.Term{v("x"), v("z")}}, Body: []ref.Pred{{Name: "path", Terms: []ref.Term{v("x"), v("y")}}, {Name: "edge", Terms: []ref.Term{v("y"), v("z")}}}})
		qs = append(qs, ref.Rule{Head: ref.Pred{Name: "q", Terms: []ref.Term{v("x")}}, Body: []ref.Pred{{Name: "path", Terms: []ref.Term{v("x"), v("x")}}}})
	case 1: // mutual recursion even/odd over a successor chain
		n := 1 + r.Intn(8)
		for i := 0; i < n; i++ {
			b.Facts = append(b.Facts, ref.Pred{Name: "succ", Terms: []ref.Term{ref.Int(int64(i)), ref.Int(int64(i + 1))}})
		}
		b.Facts = append(b.Facts, ref.Pred{Name: "even", Terms: []ref.Term{ref.Int(0)}})
		b.Rules = append(b.Rules,
			ref.Rule{Head: ref.Pred{Name: "odd", Terms: []ref.Term{v("y")}}, Body: []ref.Pred{{Name: "even", Terms: []ref.Term{v("x")}}, {Name: "succ", Terms: []ref.Term{v("x"), v("y")}}}},
			ref.Rule{Head: ref.Pred{Name: "even", Terms: []ref.Term{v("y")}}, Body: []ref.Pred{{Name: "odd", Terms: []ref.Term{v("x")}}, {Name: "succ", Terms: []ref.Term{v("x"), v("y")}}}})
		qs = append(qs, ref.Rule{Head: ref.Pred{Name: "q", Terms: []ref.Term{v("x")}}, Body: []ref.Pred{{Name: "even", Terms: []ref.Term{v("x")}}}, Exprs: []ref.Expr{ref.Bin(">", ref.Leaf(v("x")), ref.Leaf(ref.Int(1)))}})
	case 2: // arity zero and constants only
		b.Facts = append(b.Facts, ref.Pred{Name: "on"}, ref.Pred{Name: "p", Terms: []ref.Term{ref.Str("a")}})
		b.Rules = append(b.Rules,
			ref.Rule{Head: ref.Pred{Name: "ready"}, Body: []ref.Pred{{Name: "on"}, {Name: "p", Terms: []ref.Term{ref.Str("a")}}}},
			ref.Rule{Head: ref.Pred{Name: "never"}, Body: []ref.Pred{{Name: "on"}, {Name: "p", Terms: []ref.Term{ref.Str("b")}}}},
			ref.Rule{Head: ref.Pred{Name: "r", Terms: []ref.Term{v("x")}}, Body: []ref.Pred{{Name: "ready"}, {Name: "p", Terms: []ref.Term{v("x")}}}})
		qs = append(qs, ref.Rule{Head: ref.Pred{Name: "q"}, Body: []ref.Pred{{Name: "ready"}}})
	case 3: // self-join with repeated variables
		n := 2 + r.Intn(4)
		for i := 0; i < n+2; i++ {
			b.Facts = append(b.Facts, ref.Pred{Name: "e", Terms: []ref.Term{ref.Int(int64(r.Intn(n))), ref.Int(int64(r.Intn(n)))}})
		}
		b.Rules = append(b.Rules,
			ref.Rule{Head: ref.Pred{Name: "loop", Terms: []ref.Term{v("x")}}, Body: []ref.Pred{{Name: "e", Terms: []ref.Term{v("x"), v("x")}}}},
			ref.Rule{Head: ref.Pred{Name: "sym", Terms: []ref.Term{v("x"), v("y")}}, Body: []ref.Pred{{Name: "e", Terms: []ref.Term{v("x"), v("y")}}, {Name: "e", Terms: []ref.Term{v("y"), v("x")}}}},
			ref.Rule{Head: ref.Pred{Name: "tri", Terms: []ref.Term{v("x"), v("y"), v("z")}}, Body: []ref.Pred{{Name: "e", Terms: []ref.Term{v("x"), v("y")}}, {Name: "e", Terms: []ref.Term{v("y"), v("z")}}, {Name: "e", Terms: []ref.Term{v("z"), v("x")}}}})
		qs = append(qs, ref.Rule{Head: ref.Pred{Name: "q", Terms: []ref.Term{v("x"), v("y")}}, Body: []ref.Pred{{Name: "sym", Terms: []ref.Term{v("x"), v("y")}}}})
	case 4: // one rule application with many matches (cross product / projection over 8-13 facts)
		n := 8 + r.Intn(6)
		if r.Intn(2) == 0 {
			b = crossProduct(n)
			qs = append(qs, ref.Rule{Head: ref.Pred{Name: "q", Terms: []ref.Term{v("x"), v("y")}}, Body: []ref.Pred{{Name: "a", Terms: []ref.Term{v("x")}}, {Name: "b", Terms: []ref.Term{v("y")}}}, Exprs: []ref.Expr{ref.Bin("<=", ref.Leaf(v("x")), ref.Leaf(v("y")))}})
		} else {
			b = projection(n)
			qs = append(qs, ref.Rule{Head: ref.Pred{Name: "q", Terms: []ref.Term{v("x"), v("y")}}, Body: []ref.Pred{{Name: "p", Terms: []ref.Term{v("x")}}, {Name: "q", Terms: []ref.Term{v("y")}}}})
		}
	default:
		return ref.Block{}, nil
	}
	// mix in some random content
	if r.Intn(2) == 0 {
		b.Facts = append(b.Facts, g.Facts(r.Intn(4))...)
		if r.Intn(2) == 0 {
			b.Rules = append(b.Rules, g.Rule())
		}
	}
	return b, qs
}

func dedupFacts(fs []ref.Pred) []ref.Pred {
	seen := map[string]bool{}
	var out []ref.Pred
	for _, f := range fs {
		if !seen[f.Canon()] {
			seen[f.Canon()] = true
			out = append(out, f)
		}
	}
	return out
}

func genC05(r *rand.Rand, run int, tier string) *vm.Plan {
	g := gen.New(r)
	g.BoundaryInts()
	p := &vm.Plan{}
	nprog := 1 + r.Intn(3)
	for k := 0; k < nprog; k++ {
		b, qs := shapeProgram(r, g)
		if len(b.Facts) == 0 && len(b.Rules) == 0 {
			b.Facts = g.Facts(r.Intn(13))
			for i := r.Intn(6); i > 0; i-- {
				b.Rules = append(b.Rules, g.Rule())
			}
		}
		b.Facts = dedupFacts(b.Facts)
		if r.Intn(8) == 0 && len(b.Facts) > 0 {
			// two rules with the same head and body atoms that differ only in an expression
			if nr := g.NearDuplicateRules(b.Facts); len(nr) == 2 {
				b.Rules = append(b.Rules, nr...)
				qs = append(qs, ref.Rule{Head: nr[0].Head, Body: []ref.Pred{nr[0].Head}})
			}
		}
		for i := 1 + r.Intn(3); i > 0; i-- {
			if r.Intn(2) == 0 {
				qs = append(qs, g.Rule())
			} else {
				qs = append(qs, g.Query(false))
			}
		}
		op := vm.Op{K: "dl", Blk: &b, Qs: qs, Perm: r.Perm(len(b.Facts))}
		// keep the reference fast and the program within the default limits unless limits are part of the run
		m := ref.LeastModel(ref.FactSetOf(b.Facts), b.Rules, 400)
		if m.Capped {
			k--
			continue
		}
		op.Lim = &vm.Lim{MaxDurNs: []int64{1e6, 2e6, 5e7, 1e9}[r.Intn(4)]}
		if r.Intn(4) == 0 {
			op.Lim.MaxFacts = []int{len(m.Facts) + 2, 1000, 2 * len(m.Facts) + 3}[r.Intn(3)]
			op.Lim.MaxIter = []int{m.Depth + 3, 100, m.Depth + 2}[r.Intn(3)]
		} else if x := r.Intn(10); x < 4 {
			// the same program through another route of World's API (evaluate a clone, evaluate twice,
			// add half of the facts after a first evaluation, withdraw other rules before adding these)
			op.Flags = append(op.Flags, []string{"clone", "rerun", "incremental", "resetrules"}[x])
			if r.Intn(3) == 0 {
				op.Flags = append(op.Flags, []string{"clone", "rerun", "incremental", "resetrules"}[r.Intn(4)])
			}
		}
		p.Ops = append(p.Ops, op)
	}
	mode := []string{"calm", "calm", "order", "order", "stall"}[r.Intn(5)]
	schedule(r, p, mode, 2e6, 20+r.Intn(400))
	p.Note = mode
	return p
}

func init() {
	register(&Spec{
		ID: "C05", Level: "exploration", Quick: 6000, Thorough: 600000,
		Rule: "programs from the typed generator G and from fixed shapes (transitive closure, mutual recursion, arity 0, self-joins, repeated variables), facts in shuffled order, run on datalog.World (directly, or on a clone, or evaluated twice, or with half of the facts added after a first evaluation, or after other rules were added and withdrawn with ResetRules) under calm / tape-ordered / tape-ordered+stalled schedules; non-trivial = Run returned nil on a program with at least one derived fact or a non-empty query result (distinct by plan hash)",
		Gen:     genC05,
		Oracles: func(m *vm.VM) []vm.Oracle { return []vm.Oracle{vm.Common{Prop: "C05"}, vm.DLOracle{Prop: "C05"}} },
		Nontrivial: func(res *vm.Result) bool { return res.Probes["dl_ok"] > 0 && (res.Probes["dl_query_nonempty"] > 0 || res.Sites["combine.send"] > 0) },
		Real: realAll[1:2], Simulated: simAll[:2], Assumptions: assumeAll,
	})
}

// ---- C11: bounded evaluation

func crossProduct(n int) ref.Block {
	var b ref.Block
	for i := 0; i < n; i++ {
		b.Facts = append(b.Facts, ref.Pred{Name: "a", Terms: []ref.Term{ref.Int(int64(i))}}, ref.Pred{Name: "b", Terms: []ref.Term{ref.Int(int64(i))}})
	}
	b.Rules = []ref.Rule{{Head: ref.Pred{Name: "c", Terms: []ref.Term{ref.Var("x"), ref.Var("y")}}, Body: []ref.Pred{{Name: "a", Terms: []ref.Term{ref.Var("x")}}, {Name: "b", Terms: []ref.Term{ref.Var("y")}}}}}
	return b
}

func chain(n int) ref.Block {
	var b ref.Block
	for i := 0; i < n; i++ {
		b.Facts = append(b.Facts, ref.Pred{Name: "e", Terms: []ref.Term{ref.Int(int64(i)), ref.Int(int64(i + 1))}})
	}
	b.Facts = append(b.Facts, ref.Pred{Name: "reach", Terms: []ref.Term{ref.Int(0)}})
	b.Rules = []ref.Rule{{Head: ref.Pred{Name: "reach", Terms: []ref.Term{ref.Var("y")}}, Body: []ref.Pred{{Name: "reach", Terms: []ref.Term{ref.Var("x")}}, {Name: "e", Terms: []ref.Term{ref.Var("x"), ref.Var("y")}}}}}
	return b
}

func illFormed(r *rand.Rand, matches int) ref.Block {
	var b ref.Block
	for i := 0; i < matches; i++ {
		b.Facts = append(b.Facts, ref.Pred{Name: "p", Terms: []ref.Term{ref.Int(int64(i))}})
	}
	b.Facts = append(b.Facts, ref.Pred{Name: "other", Terms: []ref.Term{ref.Int(7)}})
	switch r.Intn(3) {
	case 0: // head variable not bound by the body
		b.Rules = []ref.Rule{{Head: ref.Pred{Name: "q", Terms: []ref.Term{ref.Var("unbound")}}, Body: []ref.Pred{{Name: "p", Terms: []ref.Term{ref.Var("x")}}}}}
	case 1: // expression error on one particular match
		k := int64(0)
		if matches > 0 {
			k = int64(r.Intn(matches))
		}
		b.Rules = []ref.Rule{{Head: ref.Pred{Name: "q", Terms: []ref.Term{ref.Var("x")}}, Body: []ref.Pred{{Name: "p", Terms: []ref.Term{ref.Var("x")}}},
			Exprs: []ref.Expr{ref.Bin(">=", ref.Bin("/", ref.Leaf(ref.Int(10)), ref.Un("()", ref.Bin("-", ref.Leaf(ref.Var("x")), ref.Leaf(ref.Int(k))))), ref.Leaf(ref.Int(-100)))}}}
	default: // a good rule first, then the bad one
		b.Rules = []ref.Rule{
			{Head: ref.Pred{Name: "ok", Terms: []ref.Term{ref.Var("x")}}, Body: []ref.Pred{{Name: "p", Terms: []ref.Term{ref.Var("x")}}}},
			{Head: ref.Pred{Name: "q", Terms: []ref.Term{ref.Var("nope"), ref.Var("x")}}, Body: []ref.Pred{{Name: "p", Terms: []ref.Term{ref.Var("x")}}, {Name: "p", Terms: []ref.Term{ref.Var("y")}}}}}
	}
	return b
}

// projection: many matching combinations, few distinct derived facts.
func projection(n int) ref.Block {
	var b ref.Block
	for i := 0; i < n; i++ {
		b.Facts = append(b.Facts, ref.Pred{Name: "p", Terms: []ref.Term{ref.Int(int64(i))}})
	}
	b.Rules = []ref.Rule{{Head: ref.Pred{Name: "q", Terms: []ref.Term{ref.Var("x")}}, Body: []ref.Pred{{Name: "p", Terms: []ref.Term{ref.Var("x")}}, {Name: "p", Terms: []ref.Term{ref.Var("y")}}}}}
	return b
}

func c11Program(r *rand.Rand, g *gen.G) ref.Block {
	if r.Intn(10) == 0 {
		return projection(3 + r.Intn(8))
	}
	switch r.Intn(7) {
	case 0:
		if r.Intn(4) == 0 {
			return crossProduct(8 + r.Intn(6)) // 64..169 matches in one rule application
		}
		return crossProduct(2 + r.Intn(6))
	case 1:
		return chain(2 + r.Intn(14))
	case 2:
		if r.Intn(6) == 0 { // an ill-formed rule over many matches (more than any batch or buffer size in sight)
			return illFormed(r, 65+r.Intn(140))
		}
		return illFormed(r, r.Intn(4))
	case 3:
		b, _ := shapeProgram(r, g)
		if len(b.Rules) > 0 {
			b.Facts = dedupFacts(b.Facts)
			return b
		}
		fallthrough
	default:
		var b ref.Block
		b.Facts = g.Facts(r.Intn(10))
		for i := r.Intn(5); i > 0; i-- {
			b.Rules = append(b.Rules, g.Rule())
		}
		return b
	}
}

func pickLimits(r *rand.Rand, b ref.Block) *vm.Lim {
	m := ref.LeastModel(ref.FactSetOf(b.Facts), b.Rules, 600)
	n, d := len(m.Facts), m.Depth
	mf := []int{1, 2, n - 1, n, n + 1, n + 2, 1000}[r.Intn(7)]
	mi := []int{1, d - 1, d, d + 1, d + 2, 100}[r.Intn(6)]
	if mf < 1 {
		mf = 1
	}
	if mi < 1 {
		mi = 1
	}
	return &vm.Lim{MaxFacts: mf, MaxIter: mi, MaxDurNs: []int64{1e6, 2e6, 1e7, 1e8, 1e9}[r.Intn(5)]}
}

func genC11(r *rand.Rand, run int, tier string) *vm.Plan {
	g := gen.New(r)
	p := &vm.Plan{}
	if r.Intn(3) != 0 {
		// (a) datalog.World driven directly
		n := 1 + r.Intn(2)
		for k := 0; k < n; k++ {
			b := c11Program(r, g)
			lim := pickLimits(r, b)
			var qs []ref.Rule
			if len(b.Facts) > 0 && r.Intn(3) == 0 {
				// queries after a successful run, among them ill-formed ones (a head variable the body
				// does not bind, over a predicate with several facts): whatever a query returns, it
				// leaves no goroutine behind
				f := b.Facts[r.Intn(len(b.Facts))]
				body := ref.Pred{Name: f.Name}
				for i := range f.Terms {
					body.Terms = append(body.Terms, ref.Var(fmt.Sprintf("q%d", i)))
				}
				qs = append(qs, ref.Rule{Head: ref.Pred{Name: "illformed", Terms: []ref.Term{ref.Var("nowhere")}}, Body: []ref.Pred{body}})
				if r.Intn(2) == 0 {
					qs = append(qs, ref.Rule{Head: body, Body: []ref.Pred{body}})
				}
			}
			p.Ops = append(p.Ops, vm.Op{K: "dl", Blk: &b, Qs: qs, Lim: lim, Perm: r.Perm(len(b.Facts))})
		}
		p.Note = "world"
	} else {
		genC11Authz(r, g, p)
	}
	mode := []string{"calm", "order", "stall", "stall"}[r.Intn(4)]
	var md int64 = 2e6
	if len(p.Ops) > 0 && p.Ops[len(p.Ops)-1].Lim != nil && p.Ops[len(p.Ops)-1].Lim.MaxDurNs > 0 {
		md = p.Ops[len(p.Ops)-1].Lim.MaxDurNs
	}
	schedule(r, p, mode, md, 10+r.Intn(200))
	p.Note += "/" + mode
	return p
}

// sweepStalls places one stall at every scheduler step of the calm run, with
// durations just below, at and just above the deadline.
func sweepStalls(base *vm.Plan, calm *vm.Result) []*vm.Plan {
	var md int64 = 2e6
	for _, op := range base.Ops {
		if op.Lim != nil && op.Lim.MaxDurNs > 0 {
			md = op.Lim.MaxDurNs
		}
	}
	// a program that is evaluated again after an abandoned evaluation has two workers alive at once:
	// who goes first matters, so the stall position is also combined with other orders
	// (youngest first: 2519 = -1 modulo every n up to 10; and seeded tapes)
	orders := 1
	for i := range base.Ops {
		if base.Ops[i].Has("rerun") {
			orders = 6
		}
	}
	var out []*vm.Plan
	for n := 1; n <= calm.Steps+1; n++ {
		for _, d := range []int64{md - 1, md, md + 1} {
			for o := 0; o < orders; o++ {
				q := base.Clone()
				q.Faults = []sched.Fault{{Step: n, Kind: "stall", D: d}}
				q.Note = fmt.Sprintf("sweep step %d/%d d=%d order=%d", n, calm.Steps+1, d, o)
				switch {
				case o == 1:
					q.Tape = make([]uint32, 64)
					for i := range q.Tape {
						q.Tape[i] = 2519
					}
				case o > 1:
					q.Tape = randTape(rand.New(rand.NewSource(int64(n)*131+int64(o))), 64)
				}
				out = append(out, q)
			}
		}
	}
	return out
}

// sweepStallsLazy is sweepStalls for histories: the stall (at or just above the
// deadline) is placed at every scheduler step, goroutines left behind by the
// timed-out call are not drained but interleaved with the following operations
// under a tape derived from the step number.
func sweepStallsLazy(base *vm.Plan, calm *vm.Result) []*vm.Plan {
	var md int64 = 2e6
	for _, op := range base.Ops {
		if op.Lim != nil && op.Lim.MaxDurNs > 0 {
			md = op.Lim.MaxDurNs
		}
	}
	var out []*vm.Plan
	for n := 1; n <= calm.Steps+1; n++ {
		q := base.Clone()
		q.Faults = []sched.Fault{{Step: n, Kind: "stall", D: md + int64(n%2)}}
		q.Lazy = true
		tr := rand.New(rand.NewSource(int64(n)*7919 + int64(base.Run)))
		q.Tape = randTape(tr, 48)
		q.Note = fmt.Sprintf("lazy sweep step %d/%d", n, calm.Steps+1)
		out = append(out, q)
	}
	return out
}

// genC11Catalogue is the fixed catalogue for the fault-enumeration tier: one
// small program per outcome class and shape, calm schedule (the sweep adds the stall).
func genC11Catalogue(r *rand.Rand, run int, tier string) *vm.Plan {
	g := gen.New(r)
	p := &vm.Plan{Note: "catalogue"}
	var b ref.Block
	lim := &vm.Lim{MaxDurNs: 2e6}
	if run%20 == 10 {
		// evaluated twice: the first evaluation (where the sweep's stall may fall) is abandoned at its
		// deadline, the second one must still reach the fixpoint or say that it did not (D14)
		v := ref.Var
		b = ref.Block{
			Facts: []ref.Pred{{Name: "on"}, {Name: "p", Terms: []ref.Term{ref.Str("a")}}, {Name: "has_access", Terms: []ref.Term{ref.Bool(true)}}},
			Rules: []ref.Rule{
				{Head: ref.Pred{Name: "ready"}, Body: []ref.Pred{{Name: "on"}, {Name: "p", Terms: []ref.Term{ref.Str("a")}}}},
				{Head: ref.Pred{Name: "never"}, Body: []ref.Pred{{Name: "on"}, {Name: "p", Terms: []ref.Term{ref.Str("b")}}}},
				{Head: ref.Pred{Name: "r", Terms: []ref.Term{v("x")}}, Body: []ref.Pred{{Name: "ready"}, {Name: "p", Terms: []ref.Term{v("x")}}}},
				{Head: ref.Pred{Name: "time", Terms: []ref.Term{ref.Date(1600086400)}}, Body: []ref.Pred{{Name: "has_access", Terms: []ref.Term{v("x")}}}},
			}}
		p.Ops = []vm.Op{{K: "dl", Blk: &b, Lim: lim, Flags: []string{"rerun"}}}
		// the order of the schedule on which the defect was first seen (thorough C05, seed 1, run 606699)
		p.Tape = []uint32{721994841, 3526896035, 2363225048, 2543156589, 515407842, 2841677228, 3105562348, 235036654, 2443156266, 746185219, 2250312754, 552719193,
			1872243323, 1049833442, 1234179806, 1528527159, 1340582283, 3861043633, 13354176, 2528516870, 4227179889, 3615360421, 1632197827, 3247003963, 326642842,
			2581025849, 1191566355, 598686735, 2784819439, 1912068829, 2136956666, 2565351601, 940148443, 825133198, 984954981}
		return p
	}
	switch run % 10 {
	case 0:
		b = crossProduct(2 + run/10%3)
	case 1:
		b = chain(3 + run/10%4)
	case 2:
		b = crossProduct(3)
		lim.MaxFacts = 8 // exceeded
	case 3:
		b = chain(6)
		lim.MaxIter = 3 // exceeded
	case 4:
		b = illFormed(r, 2+run/10%2)
	case 5:
		b, _ = shapeProgram(rand.New(rand.NewSource(int64(run))), g)
		if len(b.Rules) == 0 {
			b = chain(2)
		}
		b.Facts = dedupFacts(b.Facts)
	case 6:
		b = chain(4)
		lim.MaxIter = 6 // exactly enough
	case 7:
		b = crossProduct(2)
		lim.MaxFacts = 9 // just above |lfp| = 8
	case 8, 9:
		genC11Authz(r, g, p)
		for i := range p.Ops {
			if p.Ops[i].Lim == nil {
				p.Ops[i].Lim = &vm.Lim{}
			}
			p.Ops[i].Lim.MaxDurNs = 2e6
		}
		return p
	}
	p.Ops = []vm.Op{{K: "dl", Blk: &b, Lim: lim}}
	return p
}

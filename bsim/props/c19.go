package props

import (
	"math/rand"

	"bsim/gen"
	"bsim/race"
	"bsim/ref"
	"bsim/vm"
)

var c19Authorizers = []string{
	`resource("file1"); operation("read"); allow if right($r, "read"), resource($r); deny if true;`,
	`time(2026-01-01T00:00:00Z); user("alice"); check if user($u); allow if true;`,
	`resource("file2"); owner("alice", "file2"); allowed($r) <- owner($u, $r), resource($r); allow if allowed($r); deny if true;`,
	`operation("write"); check if operation($op), ["read", "write"].contains($op); allow if operation("write");`,
	`resource("file1"); check if resource($r), $r.matches("^file[0-9]$"); allow if resource($x), $x.matches("1$"); deny if true;`,
	`operation("read"); user("zoe"); check if operation($op), ["write", "read", "admin", "append"].contains($op); check if user($u), ["zoe", "bob", "alice"].contains($u); allow if true;`,
}

var c19Blocks = []string{
	`fresh_fact("concurrent", 42); derived($x) <- fresh_fact($x, $y), $y > 1; check if resource($r);`,
	`right("file1", "read"); right("file2", "read"); seen($f) <- right($f, "read");`,
	`note("a new string here"); check if operation($o), $o.starts_with("re") or operation("write");`,
	`seen($r) <- resource($r), $r.matches("^fi.*[0-9]$"); tags(["z", "b", "a"]); check if resource($r), $r.matches("file");`,
}

var c19Facts = []string{`right("file1", "read")`, `fresh_fact("x", 1)`, `resource("file9")`}
var c19Rules = []string{`seen($f) <- right($f, "read")`, `q($x) <- p($x, $y), $y < 3`}

func genC19(r *rand.Rand, run int, tier string) *vm.Plan {
	g := gen.New(r)
	auth := g.BlockFor(nil, 4, 2, 1)
	auth.Facts = append(auth.Facts, ref.Pred{Name: "right", Terms: []ref.Term{ref.Str("file1"), ref.Str("read")}})
	op := vm.Op{K: "race", Seed: seedHex(r), Blk: &auth, N: r.Intn(4), Data: c19Authorizers[r.Intn(len(c19Authorizers))], Name: c19Blocks[r.Intn(len(c19Blocks))]}
	if r.Intn(4) == 0 {
		op.Flags = append(op.Flags, "sealed")
	}
	if r.Intn(2) == 0 {
		op.Flags = append(op.Flags, "reloaded")
	}
	if r.Intn(2) == 0 {
		op.Flags = append(op.Flags, "shared-options")
	}
	kinds := []string{"authorizerFor", "authorizerFor", "authorizerForKeys", "authorizerForKeys", "authorizer", "authorize", "authorize", "string", "code", "blockid", "createblock", "append", "append_default_rng", "seal", "serialize", "revids", "checks", "misc", "parse_block", "parse_fact", "parse_rule", "parse_authorizer"}
	ntask := 2 + r.Intn(3)
	total := 0
	for t := 0; t < ntask; t++ {
		var script []vm.Op
		for i := 3 + r.Intn(8); i > 0; i-- {
			k := kinds[r.Intn(len(kinds))]
			o := vm.Op{K: k}
			switch k {
			case "blockid":
				var f ref.Pred
				switch r.Intn(3) {
				case 0:
					f = ref.Pred{Name: "right", Terms: []ref.Term{ref.Str("file1"), ref.Str("read")}}
				case 1:
					f = ref.Pred{Name: "never_seen", Terms: []ref.Term{ref.Str("fresh symbol " + seedHex(r)[:6])}}
				default:
					f = g.Fact()
				}
				o.F = &f
			case "append":
				o.Ent = entropy(r)
			case "parse_block":
				o.Data = c19Blocks[r.Intn(len(c19Blocks))]
			case "parse_fact":
				o.Data = c19Facts[r.Intn(len(c19Facts))]
			case "parse_rule":
				o.Data = c19Rules[r.Intn(len(c19Rules))]
			case "parse_authorizer":
				o.Data = c19Authorizers[r.Intn(len(c19Authorizers))]
			}
			script = append(script, o)
			total++
		}
		op.Tasks = append(op.Tasks, script)
	}
	p := &vm.Plan{Ops: []vm.Op{op}}
	for i := 0; i < total; i++ {
		p.Order = append(p.Order, r.Intn(ntask))
	}
	return p
}

func init() {
	register(&Spec{
		ID: "C19", Level: "exploration", Quick: 1500, Thorough: 100000, Race: true,
		Rule: "2-4 caller tasks, each with 3-10 operations, share ONE token (0-3 later blocks, sealed or not, freshly built or reloaded from bytes), one parsed authorizer and one parsed block value and one parser instance; operations: AuthorizerFor, Authorizer, add shared parsed content + Authorize + Query, String, Code, GetBlockID with known and fresh symbols, CreateBlock + add shared parsed block + Build, Append, Seal, Serialize, RevocationIds, Checks, parser.Block/Fact/Rule/Authorizer on the shared parser. The op-level turn order is the plan's; the hand-over between tasks uses a word accessed only in //go:norace functions, so the race detector (binary built with -race) sees no synchronisation between tasks while execution is serial and repeatable. Oracles: zero race reports; every result equals the same script run alone on an identically built token. non-trivial = at least one task switch between operations (distinct by plan hash)",
		Gen:     genC19,
		RunPlan: race.Run,
		Real:    append(append([]string{}, realAll...), "biscuit-go/v2/parser + participle", "Go race detector as monitor", "engine goroutines and real clock (WithMaxDuration(1h); no timer can fire)"),
		Simulated: []string{"order of caller tasks at operation granularity (turn gate invisible to the race detector)", "entropy source"},
		Assumptions: []string{"the race detector reports a conflicting pair whatever its distance in time as long as no happens-before edge exists; shadow-cell eviction can hide a pair (incompleteness), never invent one", "the library contains no lock or atomic whose critical section could be split (re-checked: grep sync./atomic. over non-test sources is empty), so operation-granularity interleaving loses nothing for data-race detection"},
		ExtraCoverage: map[string]interface{}{"race_detector": "go1.26.8 -race, GORACE=halt_on_error=0 log_path=<scratch>"},
	})
}

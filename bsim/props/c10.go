package props

import (
	"crypto/ed25519"
	"encoding/hex"
	"fmt"
	"math/rand"

	"bsim/gen"
	"bsim/ref"
	"bsim/vm"
)

// byz builds adversarial but schema-valid wire blocks.
type byz struct {
	r    *rand.Rand
	syms []string // the block's own symbol table
	prev int      // number of symbols in earlier blocks
}

func (z *byz) symIndex() uint64 {
	r := z.r
	switch r.Intn(12) {
	case 0:
		return uint64(28 + r.Intn(996)) // hole between default symbols and the offset
	case 1:
		return uint64(1024 + z.prev + len(z.syms) + r.Intn(3)) // just past the table
	case 2:
		return 1<<63 + uint64(r.Intn(5))
	case 3:
		return 1<<64 - 1
	case 4:
		return 1 << 32
	case 5:
		return uint64(r.Intn(28))
	default:
		if len(z.syms) == 0 {
			return uint64(r.Intn(28))
		}
		return uint64(1024 + z.prev + r.Intn(len(z.syms)))
	}
}

func (z *byz) scalar() ref.WTerm {
	r := z.r
	switch r.Intn(7) {
	case 0:
		return ref.WTerm{K: ref.KInt, I: []int64{0, 1, -1, 1<<63 - 1, -1 << 63, int64(r.Intn(5))}[r.Intn(6)]}
	case 1:
		return ref.WTerm{K: ref.KStr, U: z.symIndex()}
	case 2:
		return ref.WTerm{K: ref.KDate, U: []uint64{0, 1, 1 << 40, 1<<64 - 1, 1 << 63}[r.Intn(5)]}
	case 3:
		b := make([]byte, []int{0, 1, 2, 33}[r.Intn(4)])
		r.Read(b)
		return ref.WTerm{K: ref.KBytes, B: b}
	case 4:
		return ref.WTerm{K: ref.KBool, I: int64(r.Intn(2))}
	case 5:
		return ref.WTerm{K: ref.KVar, U: z.symIndex() & 0xffffffff} // variables also in facts
	default:
		return ref.WTerm{K: ref.KInt, I: int64(r.Intn(4))}
	}
}

func (z *byz) term() ref.WTerm {
	r := z.r
	if r.Intn(4) != 0 {
		return z.scalar()
	}
	// sets: byte arrays, one element, large, duplicates, (sometimes) mixed or nested or empty: the decoder must refuse those
	st := ref.WTerm{K: ref.KSet}
	n := []int{1, 1, 2, 3, 3, 2, 40}[r.Intn(7)]
	kind := r.Intn(5)
	if r.Intn(30) == 0 {
		kind = 5 // mixed element types: the decoder must refuse the block
	}
	for i := 0; i < n; i++ {
		var e ref.WTerm
		switch kind {
		case 0:
			b := make([]byte, r.Intn(3))
			r.Read(b)
			e = ref.WTerm{K: ref.KBytes, B: b}
		case 1:
			e = ref.WTerm{K: ref.KStr, U: z.symIndex()}
		case 2:
			e = ref.WTerm{K: ref.KInt, I: int64(r.Intn(3))}
		case 3:
			e = ref.WTerm{K: ref.KBool, I: int64(r.Intn(2))}
		case 4:
			e = ref.WTerm{K: ref.KDate, U: uint64(r.Intn(3))}
		default:
			e = z.scalar()
		}
		st.Set = append(st.Set, e)
	}
	if r.Intn(60) == 0 {
		st.Set = nil
	}
	if r.Intn(60) == 0 {
		st.Set = append(st.Set, ref.WTerm{K: ref.KSet, Set: []ref.WTerm{{K: ref.KInt, I: 1}}})
	}
	return st
}

func (z *byz) pred(names []uint64) ref.WPred {
	r := z.r
	p := ref.WPred{}
	if len(names) > 0 && r.Intn(3) != 0 {
		p.Name = names[r.Intn(len(names))]
	} else {
		p.Name = z.symIndex()
	}
	ar := []int{0, 1, 1, 2, 2, 3, 2, 1}[r.Intn(8)]
	if r.Intn(40) == 0 {
		ar = 64
	}
	for i := 0; i < ar; i++ {
		if ar > 8 {
			p.Terms = append(p.Terms, z.scalar())
		} else {
			p.Terms = append(p.Terms, z.term())
		}
	}
	return p
}

func (z *byz) ops() []ref.WOp {
	r := z.r
	var ops []ref.WOp
	switch r.Intn(8) {
	case 0: // underflow
		ops = append(ops, ref.WOp{Kind: "bin", Code: uint64(r.Intn(17))})
	case 1: // leftovers
		ops = append(ops, ref.WOp{Kind: "val", Val: z.scalar()}, ref.WOp{Kind: "val", Val: z.scalar()})
	case 2: // more than the stack limit
		for i := 0; i < 1005; i++ {
			ops = append(ops, ref.WOp{Kind: "val", Val: ref.WTerm{K: ref.KInt, I: 1}})
		}
	case 3: // empty
	case 4: // a string operator applied to whatever strings the block carries, e.g. matches() with a malformed pattern
		code := []uint64{8, 8, 6, 7, 5, 9}[r.Intn(6)]
		ops = append(ops, ref.WOp{Kind: "val", Val: ref.WTerm{K: ref.KStr, U: z.symIndex()}}, ref.WOp{Kind: "val", Val: ref.WTerm{K: ref.KStr, U: z.symIndex()}}, ref.WOp{Kind: "bin", Code: code})
	case 5: // set algebra over literals of different element types: mixed sets that only exist at run time
		lit := func() ref.WTerm {
			st := ref.WTerm{K: ref.KSet}
			kind := r.Intn(4)
			for i := 1 + r.Intn(3); i > 0; i-- {
				switch kind {
				case 0:
					st.Set = append(st.Set, ref.WTerm{K: ref.KInt, I: int64(r.Intn(4))})
				case 1:
					st.Set = append(st.Set, ref.WTerm{K: ref.KStr, U: uint64(r.Intn(28))})
				case 2:
					st.Set = append(st.Set, ref.WTerm{K: ref.KBytes, B: []byte{byte(r.Intn(3))}})
				default:
					st.Set = append(st.Set, ref.WTerm{K: ref.KBool, I: int64(r.Intn(2))})
				}
			}
			return st
		}
		ops = append(ops, ref.WOp{Kind: "val", Val: lit()})
		for i := 1 + r.Intn(3); i > 0; i-- {
			ops = append(ops, ref.WOp{Kind: "val", Val: lit()})
			if r.Intn(3) == 0 { // nest: combine the last two literals first
				ops = append(ops, ref.WOp{Kind: "val", Val: lit()}, ref.WOp{Kind: "bin", Code: []uint64{16, 15}[r.Intn(2)]})
			}
			ops = append(ops, ref.WOp{Kind: "bin", Code: []uint64{16, 15, 16, 15, 5, 4}[r.Intn(6)]})
		}
		if r.Intn(2) == 0 {
			ops = append(ops, ref.WOp{Kind: "un", Code: 2}, ref.WOp{Kind: "val", Val: ref.WTerm{K: ref.KInt, I: 0}}, ref.WOp{Kind: "bin", Code: 3})
		}
	default: // random well-shaped-looking sequences over arbitrary operand types
		n := 1 + r.Intn(4)
		depth := 0
		for i := 0; i < n*2 || depth != 1; i++ {
			if i > 30 {
				break
			}
			switch {
			case depth >= 2 && r.Intn(2) == 0:
				ops = append(ops, ref.WOp{Kind: "bin", Code: uint64(r.Intn(17))})
				depth--
			case depth >= 1 && r.Intn(4) == 0:
				ops = append(ops, ref.WOp{Kind: "un", Code: uint64(r.Intn(3))})
			default:
				ops = append(ops, ref.WOp{Kind: "val", Val: z.term()})
				depth++
			}
		}
	}
	return ops
}

func (z *byz) rule(names []uint64) ref.WRule {
	r := z.r
	rl := ref.WRule{Head: z.pred(names)}
	for i := r.Intn(4); i > 0; i-- {
		rl.Body = append(rl.Body, z.pred(names))
	}
	for i := r.Intn(3); i > 0; i-- {
		rl.Exprs = append(rl.Exprs, z.ops())
	}
	return rl
}

func (z *byz) block() *ref.WBlock {
	r := z.r
	b := &ref.WBlock{Version: 3, HasVersion: true, HasContext: r.Intn(2) == 0, Context: "ctx"}
	pool := []string{"a", "b", "right", "x", "", "file1", "read", "p", "q", "éà", "^(a+)+$", "[", "(", "*a", "a{2,1}", "[", "\\"}
	for i := r.Intn(6); i > 0; i-- {
		z.syms = append(z.syms, pool[r.Intn(len(pool))])
	}
	if r.Intn(10) == 0 {
		big := make([]byte, 70000)
		for i := range big {
			big[i] = 'a'
		}
		// not a valid pattern: matching 70 kB of text against 70 kB of literal pattern costs the
		// regexp engine minutes of real time, which the fake clock never sees (a run that takes more
		// than 40 s of real time is reported as a harness hang, exit 2)
		big[len(big)-1] = '('
		z.syms = append(z.syms, string(big))
	}
	b.Symbols = z.syms
	if r.Intn(15) == 0 {
		b.Version = []uint32{0, 2, 4, 1 << 31}[r.Intn(4)]
	}
	if r.Intn(30) == 0 {
		b.HasVersion = false
	}
	var names []uint64
	for i := 0; i < 2; i++ {
		names = append(names, z.symIndex())
	}
	for i := r.Intn(6); i > 0; i-- {
		b.Facts = append(b.Facts, z.pred(names))
	}
	for i := r.Intn(4); i > 0; i-- {
		b.Rules = append(b.Rules, z.rule(names))
	}
	for i := r.Intn(3); i > 0; i-- {
		var qs []ref.WRule
		for j := r.Intn(3); j >= 0; j-- {
			qs = append(qs, z.rule(names))
		}
		if r.Intn(10) == 0 {
			qs = nil
		}
		b.Checks = append(b.Checks, qs)
	}
	return b
}

// byzToken signs adversarial blocks into a valid chain under root.
func byzToken(r *rand.Rand, root ed25519.PrivateKey, nblocks int) []byte {
	env := &ref.WBiscuit{HasProof: true}
	cur := root
	prev := 0
	var last *ref.WSignedBlock
	for i := 0; i <= nblocks; i++ {
		z := &byz{r: r, prev: prev}
		wb := z.block()
		prev += len(z.syms)
		seed := make([]byte, 32)
		r.Read(seed)
		nxt := ed25519.NewKeyFromSeed(seed)
		sb := &ref.WSignedBlock{Block: wb.Encode(), Alg: 0, Key: nxt.Public().(ed25519.PublicKey)}
		if r.Intn(40) == 0 {
			sb.Alg = uint64(1 + r.Intn(2))
		}
		if r.Intn(25) == 0 { // a correctly signed block announcing a key of the wrong length
			l := []int{0, 1, 31, 33, 64}[r.Intn(5)]
			k := make([]byte, l)
			copy(k, sb.Key)
			sb.Key = k
		}
		sb.Signature = ed25519.Sign(cur, ref.SignedPayload(sb))
		if i == 0 {
			env.Authority = sb
		} else {
			env.Blocks = append(env.Blocks, sb)
		}
		cur, last = nxt, sb
	}
	switch r.Intn(8) {
	case 0: // wrong-length next secret
		l := []int{0, 1, 3, 31, 33, 64}[r.Intn(6)]
		env.NextSecret = make([]byte, l)
		copy(env.NextSecret, cur.Seed())
	case 1: // sealed
		env.FinalSignature = ed25519.Sign(cur, ref.SealPayload(last))
	case 2: // wrong-length seal
		l := []int{0, 1, 63, 65}[r.Intn(4)]
		env.FinalSignature = make([]byte, l)
	case 3: // no proof content
		env.NextSecret, env.FinalSignature = nil, nil
	default:
		env.NextSecret = cur.Seed()
	}
	if r.Intn(6) == 0 {
		v := uint32(r.Intn(3))
		env.RootKeyID = &v
	}
	return env.Encode()
}

// echo builds authorizer content that touches whatever the hostile block holds:
// type-agnostic rules, checks and policies over the block's symbol strings.
// mixedSetExpr combines set literals of different element types with union /
// intersection / contains, so that sets which no literal could carry exist at run time.
func mixedSetExpr(r *rand.Rand) ref.Expr {
	lit := func() ref.Expr {
		var el []ref.Term
		kind := r.Intn(3)
		for i := 1 + r.Intn(2); i > 0; i-- {
			switch kind {
			case 0:
				el = append(el, ref.Int(int64(r.Intn(4))))
			case 1:
				el = append(el, ref.Str([]string{"a", "b", "read"}[r.Intn(3)]))
			default:
				el = append(el, ref.Bytes([]byte{byte(r.Intn(3))}))
			}
		}
		return ref.Leaf(ref.Term{K: ref.KSet, Set: el})
	}
	e := lit()
	for i := 1 + r.Intn(3); i > 0; i-- {
		o := lit()
		if r.Intn(3) == 0 {
			o = ref.Bin([]string{"union", "inter"}[r.Intn(2)], o, lit())
		}
		if r.Intn(2) == 0 {
			e = ref.Bin([]string{"union", "inter"}[r.Intn(2)], e, o)
		} else {
			e = ref.Bin([]string{"union", "inter"}[r.Intn(2)], o, e)
		}
	}
	return ref.Bin(">=", ref.Un("len", e), ref.Leaf(ref.Int(0)))
}

func echo(r *rand.Rand, g *gen.G, names []string) ref.Authz {
	a := g.Authz(3, 2, 2, 2, 4)
	if r.Intn(4) == 0 {
		a.Checks = append(a.Checks, ref.Check{Queries: []ref.Rule{{Head: ref.Pred{Name: "query"}, Exprs: []ref.Expr{mixedSetExpr(r)}}}})
	}
	v := func(i int) ref.Term { return ref.Var(fmt.Sprintf("e%d", i)) }
	for _, n := range names {
		if n == "" || r.Intn(2) == 0 {
			continue
		}
		ar := r.Intn(4)
		p := ref.Pred{Name: n}
		for i := 0; i < ar; i++ {
			p.Terms = append(p.Terms, v(i))
		}
		a.Rules = append(a.Rules, ref.Rule{Head: ref.Pred{Name: "echo", Terms: p.Terms}, Body: []ref.Pred{p}})
		var exprs []ref.Expr
		if ar >= 1 {
			ops := []string{"==", "contains", "union", "inter", "+", "<", "prefix", "regex", "&&", "/", "*"}
			op := ops[r.Intn(len(ops))]
			x, y := ref.Leaf(v(0)), ref.Leaf(v(r.Intn(ar)))
			e := ref.Bin(op, x, y)
			switch op {
			case "regex":
				if r.Intn(2) == 0 { // a malformed pattern, presented on every request
					e = ref.Bin("regex", x, ref.Leaf(ref.Str([]string{"[", "(", "*a", "a{2,1}"}[r.Intn(4)])))
				}
			case "union", "inter":
				e = ref.Bin(">=", ref.Un("len", e), ref.Leaf(ref.Int(0)))
			case "+", "/", "*":
				e = ref.Bin("==", e, x)
			}
			exprs = append(exprs, e)
		}
		q := ref.Rule{Head: ref.Pred{Name: "query"}, Body: []ref.Pred{p}, Exprs: exprs}
		switch r.Intn(3) {
		case 0:
			a.Checks = append(a.Checks, ref.Check{Queries: []ref.Rule{q}})
		case 1:
			a.Policies = append([]ref.Policy{{Allow: true, Queries: []ref.Rule{q}}}, a.Policies...)
		default:
			a.Rules = append(a.Rules, ref.Rule{Head: ref.Pred{Name: "derived", Terms: p.Terms}, Body: []ref.Pred{p, p}, Exprs: exprs})
		}
	}
	return a
}

// genC10Rounds: a token from an untrusted holder whose later blocks carry rules that fail with a
// type error for some request facts and not for others, served by one long-lived authorizer over
// several requests (fail in block k, Reset, succeed further): state an aborted evaluation left in
// the authorizer must never crash the next one.
func genC10Rounds(r *rand.Rand, h *hist) *vm.Plan {
	g := h.g
	key := h.issuers[0]
	v := ref.Var
	t := h.build(key, g.BlockFor(nil, 3, 1, 1), nil)
	nb := 2 + r.Intn(3)
	bad := 1 + r.Intn(nb) // the block (1-based) whose rule depends on the type of a request fact
	for i := 1; i <= nb; i++ {
		blk := g.Block(2, 1, 1)
		if i == bad {
			blk.Rules = append(blk.Rules, ref.Rule{Head: ref.Pred{Name: "small", Terms: []ref.Term{v("v")}}, Body: []ref.Pred{{Name: "quota", Terms: []ref.Term{v("v")}}},
				Exprs: []ref.Expr{ref.Bin("<", ref.Leaf(v("v")), ref.Leaf(ref.Int(10)))}})
		}
		t = h.attenuate(t, blk)
	}
	la := h.add(vm.Op{K: "az", A: t, KS: &vm.KeySel{Key: key}, Lim: &vm.Lim{MaxDurNs: 1e9}, Out: h.slot()})
	vals := []ref.Term{ref.Str("ten"), ref.Int(5), ref.Bytes([]byte{1}), ref.Int(50), ref.Bool(true)}
	for rd := 2 + r.Intn(3); rd > 0; rd-- {
		az := g.AuthzFor(nil, 2, 1, 1, 2)
		az.Facts = append(az.Facts, ref.Pred{Name: "quota", Terms: []ref.Term{vals[r.Intn(len(vals))]}})
		h.add(vm.Op{K: "azadd", A: la, Az: &az})
		h.add(vm.Op{K: "azauth", A: la, Qs: []ref.Rule{{Head: ref.Pred{Name: "small", Terms: []ref.Term{v("x")}}, Body: []ref.Pred{{Name: "small", Terms: []ref.Term{v("x")}}}}}})
		if r.Intn(3) != 0 {
			h.add(vm.Op{K: "azreset", A: la})
		}
	}
	h.p.Note = "rounds"
	return h.p
}

func genC10(r *rand.Rand, run int, tier string) *vm.Plan {
	h := newHist(r, 1, false)
	if r.Intn(8) == 0 {
		return genC10Rounds(r, h)
	}
	g := h.g
	key := h.issuers[0]
	seed, _ := hex.DecodeString(h.p.Ops[0].Seed)
	root := ed25519.NewKeyFromSeed(seed)
	var blobs []int
	names := []string{"a", "b", "right", "x", "file1", "read", "p", "q", "éà", "resource", "operation"}
	for _, sg := range g.Sigs {
		names = append(names, sg.Name)
	}
	switch r.Intn(4) {
	case 0: // byte-level corruption of honest tokens in transit / at rest
		t := h.issue()
		for k := r.Intn(3); k > 0; k-- {
			t = h.attenuateRandom()
		}
		if r.Intn(3) == 0 {
			t = h.sealRandom()
		}
		b := h.send(t)
		for i := 0; i < 2+r.Intn(4); i++ {
			blobs = append(blobs, h.mutate(b, byteMuts, 1+r.Intn(3)))
		}
		if r.Intn(2) == 0 {
			blobs = append(blobs, h.mutate(b, structMuts, 1+r.Intn(2)))
		}
	default: // Byzantine issuer trusted by the verifier
		for i := 0; i < 1+r.Intn(2); i++ {
			data := byzToken(r, root, []int{0, 0, 1, 2}[r.Intn(4)])
			bl := h.add(vm.Op{K: "blob", A: key, Data: hex.EncodeToString(data), Out: h.slot()})
			h.tokKey[-bl] = key
			blobs = append(blobs, bl)
			if r.Intn(3) == 0 {
				blobs = append(blobs, h.mutate(bl, byteMuts, 1))
			}
		}
	}
	zero := hex.EncodeToString(make([]byte, 32))
	for _, bl := range blobs {
		t := h.add(vm.Op{K: "unm", A: bl, Out: h.slot()})
		h.add(vm.Op{K: "print", A: t})
		az := echo(r, g, names)
		qs := []ref.Rule{g.Rule(), {Head: ref.Pred{Name: "q", Terms: []ref.Term{ref.Var("z")}}, Body: []ref.Pred{{Name: names[r.Intn(len(names))], Terms: []ref.Term{ref.Var("z")}}}}}
		h.add(vm.Op{K: "verify", A: t, KS: &vm.KeySel{Key: key}, Az: &az, Qs: qs, Lim: &vm.Lim{MaxDurNs: 1e9}, Flags: []string{"query-before"}})
		if r.Intn(3) == 0 {
			h.add(vm.Op{K: "verify", A: t, KS: &vm.KeySel{Raw: seedHex(r)}, Az: &az})
			h.add(vm.Op{K: "verify", A: t, KS: &vm.KeySel{Raw: zero}, Az: &az})
		}
		if r.Intn(2) == 0 {
			h.add(vm.Op{K: "verify", A: t, KS: &vm.KeySel{Key: key}, Az: &az, Via: "NewVerifier", Lim: &vm.Lim{MaxDurNs: 1e9}})
		}
		if r.Intn(3) == 0 {
			// a long-lived authorizer serves several requests about the same hostile token:
			// whatever an aborted round left behind must not crash a later one
			az2 := echo(r, g, names)
			la := h.add(vm.Op{K: "az", A: t, KS: &vm.KeySel{Key: key}, Lim: &vm.Lim{MaxDurNs: 1e9}, Out: h.slot()})
			h.add(vm.Op{K: "azadd", A: la, Az: &az})
			h.add(vm.Op{K: "azauth", A: la, Qs: qs})
			h.add(vm.Op{K: "azreset", A: la})
			h.add(vm.Op{K: "azadd", A: la, Az: &az2})
			h.add(vm.Op{K: "azauth", A: la, Qs: qs})
			h.add(vm.Op{K: "azauth", A: la})
		}
		f := g.Fact()
		h.add(vm.Op{K: "blockid", A: t, F: &f})
		h.add(vm.Op{K: "attenuate", A: t, Blk: blkp(g.Block(2, 1, 1)), Ent: entropy(r), Out: h.slot()})
		h.add(vm.Op{K: "seal", A: t, Out: h.slot()})
		h.add(vm.Op{K: "ser", A: t, Out: h.slot()})
	}
	// a quarter of the runs evaluate the hostile content under a stormy schedule with clock stalls
	// (the verifier times out in the middle of an evaluation and the engine's goroutines run on)
	switch r.Intn(8) {
	case 0, 1:
		schedule(r, h.p, "stall", 1e9, 20+r.Intn(400))
	case 2:
		schedule(r, h.p, "order", 1e9, 0)
	}
	return h.p
}

func init() {
	register(&Spec{
		ID: "C10", Level: "exploration", Quick: 3000, Thorough: 300000,
		Rule: "(a) a Byzantine issuer whose root key the verifier trusts emits envelopes written with the harness' own wire writer and correctly signed, whose fields are adversarial: symbol indexes in the hole 28..1023, past the table, >= 2^63; variables in facts; sets of byte arrays, one-element, 40-element, duplicate, empty, mixed and nested sets; ill-formed operator sequences (underflow, leftovers, >1000 pushes, random); arities 0..64; empty / duplicate / 70 kB symbols; wrong-length next secret (0,1,3,31,33,64) and seal; missing proof; other versions and algorithms; (b) byte-level and structural corruption of honest and Byzantine tokens in transit. Every byte string goes through Unmarshal and, when a token comes back, String/Code/RevocationIds, AuthorizerFor under the right key, a random key and the zero key, NewVerifier, Authorize and Query with content echoing the token's own predicates with type-agnostic expressions, GetBlockID, Append, Seal, Serialize. Oracle: no recovered panic on the calling goroutine and no death of the worker process (the only way to see a panic on a library goroutine). non-trivial = Authorize was reached on a hostile token (distinct by plan hash)",
		Gen: genC10,
		Oracles: func(m *vm.VM) []vm.Oracle {
			return []vm.Oracle{vm.Common{Prop: "C10"}, vm.HostileProbe{}}
		},
		Nontrivial: func(res *vm.Result) bool { return res.Probes["hostile_authorize_reached"] > 0 },
		Real:       realAll, Simulated: append(append([]string{}, simAll...), "node crash = death of the worker OS process, observed by the parent"), Assumptions: assumeAll[1:],
	})
}

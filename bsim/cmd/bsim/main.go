// bsim: deterministic simulation checks for biscuit-go.
//
//	bsim check <property> <quick|thorough>   run the check, write evidence, print VIOLATION lines
//	bsim worker ...                          (internal) execute a range of runs
//	bsim exec                                (internal) execute one plan from stdin, result on fd 3
//	bsim replay <file>                       execute a replay file in a fresh process
//	bsim selftest determinism [props...]     determinism self-test
//	bsim selftest model                      validate the reference model on the repository's samples
//
// cryptocustomrand=1: a nil reader handed to crypto/ed25519.GenerateKey reads crypto/rand.Reader,
// which the simulator replaces for callers that rely on the default entropy source.
//
//go:debug cryptocustomrand=1
package main

import (
	"bufio"
	"bytes"
	"encoding/json"
	"fmt"
	"io"
	"os"
	"os/exec"
	"path/filepath"
	"runtime"
	"sort"
	"strconv"
	"strings"
	"sync"
	"sync/atomic"
	"syscall"
	"time"

	"bsim/minimise"
	"bsim/race"
	"bsim/props"
	"bsim/vm"
)

var verifDir = envOr("BSIM_VERIF", "/verif")

var raceDir string
var raceOnce sync.Once
var stopEarly atomic.Bool

// raceEnv tells a -race child process where to write its reports (one file per pid).
func raceEnv() []string {
	if !race.Enabled {
		return nil
	}
	raceOnce.Do(func() {
		d, err := os.MkdirTemp(filepath.Join(verifDir, ".build"), "race-")
		if err != nil {
			d, _ = os.MkdirTemp("", "bsim-race-")
		}
		raceDir = d
	})
	base := filepath.Join(raceDir, "report")
	return []string{"GORACE=halt_on_error=0 log_path=" + base, "BSIM_RACELOG=" + base}
}

func cleanupRace() {
	if raceDir != "" {
		os.RemoveAll(raceDir)
	}
}

func envOr(k, d string) string {
	if v := os.Getenv(k); v != "" {
		return v
	}
	return d
}

func main() {
	if len(os.Args) < 2 {
		fmt.Fprintln(os.Stderr, "usage: bsim check|replay|selftest ...")
		os.Exit(2)
	}
	switch os.Args[1] {
	case "check":
		rc := cmdCheck(os.Args[2:])
		cleanupRace()
		os.Exit(rc)
	case "worker":
		os.Exit(cmdWorker(os.Args[2:]))
	case "exec":
		os.Exit(cmdExec())
	case "replay":
		rc := cmdReplay(os.Args[2:])
		cleanupRace()
		os.Exit(rc)
	case "selftest":
		os.Exit(cmdSelftest(os.Args[2:]))
	case "gen":
		// bsim gen <prop> <seed> <run>: print the plan
		seed, _ := strconv.ParseInt(os.Args[3], 10, 64)
		run, _ := strconv.Atoi(os.Args[4])
		p := props.Generate(os.Args[2], seed, run, "quick")
		b, _ := json.MarshalIndent(p, "", " ")
		fmt.Println(string(b))
	default:
		fmt.Fprintln(os.Stderr, "unknown command", os.Args[1])
		os.Exit(2)
	}
}

// hangWatchdog: a run normally takes milliseconds. If one does not finish within
// 40 s of real time something inside the bubble is blocked in a way the scheduler
// cannot see (a goroutine waiting on a sync.Mutex is not "durably blocked" for
// synctest, so synctest.Wait never returns). Dump every stack and die; the parent
// decides from the dump whether a library goroutine is the one that hangs.
//
// 40 s of real time is not 40 s of work on a machine that runs other checks beside this one: when
// the timer fires, the CPU time this process has used since the run began decides. Next to none:
// the run is blocked, report it. More than 60 s: it is busy and will not end, report it. In
// between: the process is being starved, look again in 40 s (at most 15 times).
func hangWatchdog() *time.Timer {
	start := cpuTime()
	last := start
	rounds := 0
	var t *time.Timer
	t = time.AfterFunc(40*time.Second, func() {
		now := cpuTime()
		used, progress := now-start, now-last
		last = now
		rounds++
		if progress > 500*time.Millisecond && used < 60*time.Second && rounds < 15 {
			t.Reset(40 * time.Second)
			return
		}
		buf := make([]byte, 1<<20)
		n := runtime.Stack(buf, true)
		fmt.Fprintf(os.Stderr, "BSIM-HANG: run did not finish in %d s of real time (%v of CPU time)\n%s\n", 40*rounds, used, buf[:n])
		os.Exit(3)
	})
	return t
}

func cpuTime() time.Duration {
	var ru syscall.Rusage
	if syscall.Getrusage(syscall.RUSAGE_SELF, &ru) != nil {
		return 0
	}
	return time.Duration(ru.Utime.Nano() + ru.Stime.Nano())
}

func runPlan(p *vm.Plan, trace bool) *vm.Result {
	wd := hangWatchdog()
	defer wd.Stop()
	spec := props.Registry[p.Property]
	if spec == nil {
		return &vm.Result{Internal: "unknown property " + p.Property}
	}
	var res *vm.Result
	if spec.RunPlan != nil {
		res = spec.RunPlan(p, trace)
	} else {
		res = vm.Run(p, spec.Oracles, trace)
	}
	if spec.Nontrivial != nil {
		res.Nontrivial = spec.Nontrivial(res)
	}
	return res
}

// ---- exec: one plan, fresh process

func cmdExec() int {
	data, err := io.ReadAll(os.Stdin)
	if err != nil {
		return 2
	}
	var p vm.Plan
	var in execInput
	if json.Unmarshal(data, &in) == nil && in.Plan != nil {
		// a session: the plans of the prelude are executed first, in this process, for whatever
		// process-wide state of the library they leave behind; only the last plan is judged
		for _, q := range in.Prelude {
			runPlan(q, false)
		}
		p = *in.Plan
	} else if err := json.Unmarshal(data, &p); err != nil {
		fmt.Fprintln(os.Stderr, "bad plan:", err)
		return 2
	}
	out := os.NewFile(3, "results")
	res := runPlan(&p, os.Getenv("BSIM_TRACE") != "")
	b, _ := json.Marshal(res)
	out.Write(append(b, '\n'))
	return 0
}

// isolated executes a plan in a fresh process. A dead process is turned into
// a process-death violation carrying the panic's first library frame.
func isolated(p *vm.Plan, trace bool) *vm.Result { return isolatedSeq(nil, p, trace) }

// execInput is what "bsim exec" reads when earlier plans have to be executed in the same process.
type execInput struct {
	Prelude []*vm.Plan `json:"prelude"`
	Plan    *vm.Plan   `json:"plan"`
}

// isolatedSeq executes the prelude plans and then p in one fresh process and returns p's result.
func isolatedSeq(prelude []*vm.Plan, p *vm.Plan, trace bool) *vm.Result {
	self, _ := os.Executable()
	cmd := exec.Command(self, "exec")
	if len(prelude) == 0 {
		cmd.Stdin = bytes.NewReader(p.JSON())
	} else {
		b, _ := json.Marshal(execInput{Prelude: prelude, Plan: p})
		cmd.Stdin = bytes.NewReader(b)
	}
	pr, pw, _ := os.Pipe()
	cmd.ExtraFiles = []*os.File{pw}
	var stderr bytes.Buffer
	cmd.Stderr = &stderr
	cmd.Env = append(os.Environ(), "TZ=UTC", "GOMAXPROCS="+envOr("BSIM_GOMAXPROCS", "1"))
	cmd.Env = append(cmd.Env, raceEnv()...)
	if trace {
		cmd.Env = append(cmd.Env, "BSIM_TRACE=1")
	}
	if err := cmd.Start(); err != nil {
		return &vm.Result{Internal: "cannot start exec: " + err.Error()}
	}
	pw.Close()
	done := make(chan []byte, 1)
	go func() { b, _ := io.ReadAll(pr); done <- b }()
	limit := 120*time.Second + time.Duration(len(prelude))*200*time.Millisecond
	timer := time.AfterFunc(limit, func() { cmd.Process.Kill() })
	werr := cmd.Wait()
	timedOut := !timer.Stop()
	out := <-done
	pr.Close()
	if timedOut {
		return &vm.Result{Internal: fmt.Sprintf("watchdog: plan did not finish in %v", limit)}
	}
	var res vm.Result
	if len(out) > 0 && json.Unmarshal(bytes.TrimSpace(out), &res) == nil {
		return &res
	}
	if werr != nil {
		return deathResult(p, stderr.String())
	}
	return &vm.Result{Internal: "exec produced no result"}
}

func deathResult(p *vm.Plan, stderr string) *vm.Result {
	prop := p.Property
	if strings.Contains(stderr, "BSIM-HANG") {
		if sig, detail, lib := hangSig(stderr); lib {
			// a library goroutine waits forever on a lock: C11's "no goroutine stays blocked forever"
			return &vm.Result{Run: p.Run, PlanHash: p.Hash(), Violations: []vm.Violation{{Prop: "C11", Invariant: "stranded-goroutine", Sig: sig, Detail: detail}}}
		} else {
			return &vm.Result{Run: p.Run, PlanHash: p.Hash(), Internal: "watchdog: a run hung without any library goroutine waiting on a lock:\n" + detail}
		}
	}
	sig, detail := deathSig(stderr)
	if strings.HasPrefix(sig, "process death: :") {
		// the dying goroutine has no library frame: the harness itself crashed
		return &vm.Result{Run: p.Run, PlanHash: p.Hash(), Internal: "harness process died: " + tail(detail, 1200)}
	}
	return &vm.Result{Run: p.Run, PlanHash: p.Hash(), Violations: []vm.Violation{{Prop: deathProp(prop, p), Invariant: "process-death", Sig: sig, Detail: detail}}}
}

func deathProp(prop string, p *vm.Plan) string {
	// an unrecovered panic on a library goroutine kills the process: that is C10's
	// subject when hostile bytes are involved, otherwise the profile's own property
	for _, op := range p.Ops {
		if op.K == "blob" || op.K == "mut" {
			return "C10"
		}
	}
	return prop
}

// hangSig inspects a BSIM-HANG dump: a goroutine with a frame in the library's
// datalog package that waits on a lock (or anything else) is what keeps the bubble busy.
func hangSig(stderr string) (string, string, bool) {
	i := strings.Index(stderr, "BSIM-HANG")
	if i < 0 {
		return "", "", false
	}
	dump := stderr[i:]
	for _, g := range strings.Split(dump, "\n\n") {
		if !strings.Contains(g, "biscuit-go/v2/") || strings.Contains(g, "bsim/cmd/bsim.hangWatchdog") {
			continue
		}
		lines := strings.Split(g, "\n")
		state := lines[0]
		if !(strings.Contains(state, "sync.") || strings.Contains(state, "semacquire") || strings.Contains(state, "Mutex") || strings.Contains(state, "RWMutex") || strings.Contains(state, "WaitGroup") || strings.Contains(state, "Cond")) {
			continue
		}
		frame := ""
		for _, ln := range lines[1:] {
			if strings.Contains(ln, "biscuit-go/v2/") && !strings.HasPrefix(ln, "\t") && !strings.HasPrefix(ln, "created by") {
				frame = ln
				if j := strings.LastIndex(frame, "("); j > 0 {
					frame = frame[:j]
				}
				frame = strings.TrimPrefix(frame, "github.com/biscuit-auth/biscuit-go/v2")
				break
			}
		}
		st := state
		if a := strings.Index(st, "["); a >= 0 {
			st = st[a:]
		}
		if c := strings.Index(st, ","); c > 0 {
			st = st[:c] + "]"
		}
		return "stranded: " + frame + " blocked forever " + st, tail(g, 1200), true
	}
	return "", tail(dump, 1500), false
}

func deathSig(stderr string) (string, string) {
	lines := strings.Split(stderr, "\n")
	msg, frame := "", ""
	for i, ln := range lines {
		if msg == "" && (strings.HasPrefix(ln, "panic:") || strings.HasPrefix(ln, "fatal error:")) {
			msg = ln
			_ = i
		}
		if msg != "" && frame == "" && strings.Contains(ln, "biscuit-go/v2") && !strings.HasPrefix(ln, "\t") && !strings.HasPrefix(ln, "created by") {
			frame = ln
			if j := strings.LastIndex(frame, "("); j > 0 {
				frame = frame[:j]
			}
			frame = strings.TrimPrefix(frame, "github.com/biscuit-auth/biscuit-go/v2")
		}
	}
	if msg == "" {
		msg = "process died without panic message"
	}
	tail := stderr
	if len(tail) > 1500 {
		tail = tail[:1500]
	}
	return "process death: " + frame + ": " + normNum(msg), tail
}

func normNum(s string) string {
	out := make([]rune, 0, len(s))
	for _, r := range s {
		if r >= '0' && r <= '9' {
			if len(out) > 0 && out[len(out)-1] == '#' {
				continue
			}
			out = append(out, '#')
			continue
		}
		out = append(out, r)
	}
	if len(out) > 140 {
		out = out[:140]
	}
	return string(out)
}

// ---- replay

func cmdReplay(args []string) int {
	if len(args) < 1 {
		return 2
	}
	data, err := os.ReadFile(args[0])
	if err != nil {
		fmt.Fprintln(os.Stderr, err)
		return 2
	}
	var rf ReplayFile
	if err := json.Unmarshal(data, &rf); err != nil || rf.Plan == nil {
		fmt.Fprintln(os.Stderr, "bad replay file")
		return 2
	}
	res := isolatedSeq(rf.Prelude, rf.Plan, true)
	if res.Internal != "" {
		fmt.Println("INTERNAL:", res.Internal)
		return 2
	}
	fmt.Printf("replay of %s: property=%s seed=%d run=%d ops=%d steps=%d sched=%s\n", args[0], rf.Plan.Property, rf.Plan.Seed, rf.Plan.Run, len(rf.Plan.Ops), res.Steps, res.SchedHash)
	if len(rf.Prelude) > 0 {
		fmt.Printf("  (session replay: %d earlier plan(s) executed first in the same process)\n", len(rf.Prelude))
	}
	rc := 0
	for _, v := range res.Violations {
		fmt.Printf("  violation %s [%s]: %s\n    %s\n", v.Key(), v.Sig, strings.ReplaceAll(v.Detail, "\n", "\n    "), "")
		if v.Prop == rf.Violation.Prop && v.Invariant == rf.Violation.Invariant {
			rc = 1
		}
	}
	if rc == 1 {
		fmt.Printf("VIOLATION property=%s replay=%s\n", rf.Violation.Prop, args[0])
	} else {
		fmt.Println("recorded violation did NOT reproduce")
	}
	return rc
}

type ReplayFile struct {
	Violation vm.Violation `json:"violation"`
	Seed      int64        `json:"seed"`
	Run       int          `json:"run"`
	Minimised bool         `json:"minimised"`
	Original  int          `json:"original_ops"`
	Tries     int          `json:"minimiser_runs"`
	SchedHash string       `json:"sched_hash"`
	Plan      *vm.Plan     `json:"plan"`
	// Prelude: plans that have to be executed before Plan in the same process for the violation to
	// appear (the library keeps process-wide state that an earlier plan left behind)
	Prelude []*vm.Plan `json:"prelude,omitempty"`
}

// ---- worker

type wmsg struct {
	Type string `json:"type"` // "agg", "violation", "done"
	Agg  *Agg   `json:"agg,omitempty"`
	V    *vm.Violation `json:"v,omitempty"`
	Plan *vm.Plan      `json:"plan,omitempty"`
	Run  int           `json:"run,omitempty"`
	From int           `json:"from,omitempty"` // first run of the worker process that reports
	Internal string    `json:"internal,omitempty"`
}

// Agg aggregates run results.
type Agg struct {
	Evals      int            `json:"evals"`
	Runs       int            `json:"runs"`
	SubRuns    int            `json:"sub_runs"`
	Steps      int64          `json:"steps"`
	Ops        int64          `json:"ops"`
	SimNs      int64          `json:"sim_ns"`
	StallNs    int64          `json:"stall_ns"`
	Probes     map[string]int `json:"probes"`
	Faults     map[string]int `json:"faults"`
	Sites      map[string]int `json:"sites"`
	Nontrivial []string       `json:"nontrivial"` // plan hashes
	Scheds     []string       `json:"scheds"`
	States     []string       `json:"states"`
	Samples    []*vm.Plan     `json:"samples,omitempty"`
	SweepPoints int           `json:"sweep_points"`
	SweepPrograms int         `json:"sweep_programs"`
}

func newAgg() *Agg {
	return &Agg{Probes: map[string]int{}, Faults: map[string]int{}, Sites: map[string]int{}}
}

func (a *Agg) add(res *vm.Result, p *vm.Plan, sub bool) {
	a.Evals++
	if sub {
		a.SubRuns++
	} else {
		a.Runs++
	}
	a.Steps += int64(res.Steps)
	a.Ops += int64(res.Ops)
	a.SimNs += res.SimNs
	a.StallNs += res.StallNs
	for k, v := range res.Probes {
		a.Probes[k] += v
	}
	for k, v := range res.Faults {
		a.Faults[k] += v
	}
	for k, v := range res.Sites {
		a.Sites[k] += v
	}
	if res.Nontrivial {
		a.Nontrivial = append(a.Nontrivial, res.PlanHash)
	}
	a.Scheds = append(a.Scheds, res.SchedHash)
	a.States = append(a.States, res.States...)
}

func (a *Agg) merge(b *Agg) {
	a.Evals += b.Evals
	a.Runs += b.Runs
	a.SubRuns += b.SubRuns
	a.Steps += b.Steps
	a.Ops += b.Ops
	a.SimNs += b.SimNs
	a.StallNs += b.StallNs
	a.SweepPoints += b.SweepPoints
	a.SweepPrograms += b.SweepPrograms
	for k, v := range b.Probes {
		a.Probes[k] += v
	}
	for k, v := range b.Faults {
		a.Faults[k] += v
	}
	for k, v := range b.Sites {
		a.Sites[k] += v
	}
	a.Nontrivial = append(a.Nontrivial, b.Nontrivial...)
	a.Scheds = append(a.Scheds, b.Scheds...)
	a.States = append(a.States, b.States...)
	if len(a.Samples) < 3 {
		a.Samples = append(a.Samples, b.Samples...)
	}
}

func cmdWorker(args []string) int {
	// worker <prop> <tier> <seed> <from> <to> <stride> <curfile>
	if len(args) < 7 {
		return 2
	}
	id, tier := args[0], args[1]
	seed, _ := strconv.ParseInt(args[2], 10, 64)
	from, _ := strconv.Atoi(args[3])
	to, _ := strconv.Atoi(args[4])
	stride, _ := strconv.Atoi(args[5])
	cur := args[6]
	spec := props.Registry[id]
	if spec == nil {
		return 2
	}
	out := bufio.NewWriter(os.NewFile(3, "results"))
	emit := func(m wmsg) {
		b, _ := json.Marshal(m)
		out.Write(append(b, '\n'))
		out.Flush()
	}
	agg := newAgg()
	perKey := map[string]int{}
	sweepN := 0
	if spec.SweepN != nil {
		sweepN = spec.SweepN(tier)
	}
	one := func(p *vm.Plan, sub bool) *vm.Result {
		os.WriteFile(cur, p.JSON(), 0o644)
		res := runPlan(p, false)
		agg.add(res, p, sub)
		if res.Internal != "" {
			emit(wmsg{Type: "internal", Internal: res.Internal, Plan: p})
		}
		for i := range res.Violations {
			v := res.Violations[i]
			k := v.Key() + "|" + v.Sig
			perKey[k]++
			if perKey[k] <= 3 {
				emit(wmsg{Type: "violation", V: &v, Plan: p, Run: p.Run, From: from})
			} else {
				emit(wmsg{Type: "violation", V: &v, Run: p.Run})
			}
		}
		return res
	}
	n := 0
	for run := from; run < to; run += stride {
		p := props.Generate(id, seed, run, tier)
		res := one(p, false)
		if len(agg.Samples) < 2 && res.Nontrivial {
			agg.Samples = append(agg.Samples, p)
		}
		if spec.Sweep != nil && run < sweepN && len(res.Violations) == 0 {
			subs := spec.Sweep(p, res)
			if len(subs) > 0 {
				agg.SweepPrograms++
			}
			for _, sp := range subs {
				sp.Property, sp.Seed, sp.Run, sp.Profile = p.Property, p.Seed, p.Run, p.Profile
				one(sp, true)
				agg.SweepPoints++
			}
		}
		n++
		if n%100 == 0 {
			emit(wmsg{Type: "agg", Agg: agg})
			agg = newAgg()
		}
	}
	emit(wmsg{Type: "agg", Agg: agg})
	emit(wmsg{Type: "done"})
	os.Remove(cur)
	return 0
}

// ---- check

type Known struct {
	Property string `json:"property"`
	Status   string `json:"status"` // "known" or "fixed"
	Match    string `json:"match"`  // substring of the violation signature
	What     string `json:"what"`
	Commit   string `json:"commit,omitempty"`
}

func loadKnown() []Known {
	var ks []Known
	data, err := os.ReadFile(filepath.Join(verifDir, "known-findings.json"))
	if err != nil {
		return nil
	}
	json.Unmarshal(data, &ks)
	return ks
}

type found struct {
	V     vm.Violation
	Plan  *vm.Plan
	From  int // first run of the worker process that executed Plan
	Count int
	Runs  []int
}

func cmdCheck(args []string) int {
	if len(args) < 2 {
		fmt.Fprintln(os.Stderr, "usage: bsim check <property> <quick|thorough>")
		return 2
	}
	id, tier := args[0], args[1]
	spec := props.Registry[id]
	if spec == nil {
		fmt.Fprintln(os.Stderr, "unknown property", id)
		return 2
	}
	seed := int64(1)
	if s := os.Getenv("VERIF_SEED"); s != "" {
		if v, err := strconv.ParseInt(s, 10, 64); err == nil {
			seed = v
		}
	}
	runs := spec.Quick
	if tier == "thorough" {
		runs = spec.Thorough
	}
	if s := os.Getenv("VERIF_RUNS"); s != "" {
		if v, err := strconv.Atoi(s); err == nil {
			runs = v
		}
	}
	// watchdog only (a quick batch takes 10-90 s on an idle 16-core machine, several times that when
	// other checks run beside it)
	budget := 30 * time.Minute
	if tier == "thorough" {
		budget = 6 * time.Hour
	}
	fmt.Printf("bsim check property=%s tier=%s VERIF_SEED=%d runs=%d\n", id, tier, seed, runs)
	start := time.Now()
	nw := runtime.NumCPU()
	if s := os.Getenv("BSIM_WORKERS"); s != "" {
		if v, err := strconv.Atoi(s); err == nil && v > 0 {
			nw = v
		}
	}
	if nw > runs {
		nw = runs
	}
	scratch, err := os.MkdirTemp(filepath.Join(verifDir, ".build"), "scratch-")
	if err != nil {
		scratch, _ = os.MkdirTemp("", "bsim-")
	}
	defer os.RemoveAll(scratch)

	total := newAgg()
	var mu sync.Mutex
	founds := map[string]*found{}
	var internal []string
	var wg sync.WaitGroup
	deadline := time.Now().Add(budget)
	watchdog := false
	for w := 0; w < nw; w++ {
		wg.Add(1)
		go func(w int) {
			defer wg.Done()
			from := w
			for from < runs {
				if stopEarly.Load() {
					return
				}
				if time.Now().After(deadline) {
					mu.Lock()
					watchdog = true
					mu.Unlock()
					return
				}
				cur := filepath.Join(scratch, fmt.Sprintf("cur-%d.json", w))
				next, stderr, died := spawnWorker(id, tier, seed, from, runs, nw, cur, deadline, func(m wmsg) {
					mu.Lock()
					defer mu.Unlock()
					switch m.Type {
					case "agg":
						total.merge(m.Agg)
					case "internal":
						internal = append(internal, m.Internal)
					case "violation":
						k := m.V.Key() + "|" + m.V.Sig
						f := founds[k]
						if f == nil {
							f = &found{V: *m.V}
							founds[k] = f
						}
						f.Count++
						if len(f.Runs) < 10 {
							f.Runs = append(f.Runs, m.Run)
						}
						if f.Plan == nil && m.Plan != nil {
							f.Plan, f.From = m.Plan, m.From
						}
					}
				})
				if !died {
					return
				}
				if stderr == "BSIM-KILLED-BY-DEADLINE" {
					// the batch budget ran out and the parent itself stopped this worker
					mu.Lock()
					watchdog = true
					mu.Unlock()
					return
				}
				// the worker process died: the plan it was executing is in cur
				data, err := os.ReadFile(cur)
				var p vm.Plan
				if err != nil || json.Unmarshal(data, &p) != nil {
					mu.Lock()
					internal = append(internal, "worker died and left no current plan: "+tail(stderr, 400))
					mu.Unlock()
					return
				}
				res := deathResult(&p, stderr)
				if res.Internal != "" {
					mu.Lock()
					internal = append(internal, res.Internal)
					mu.Unlock()
					return
				}
				mu.Lock()
				total.Evals++
				total.Probes["worker_process_death"]++
				if total.Probes["worker_process_death"] > 24 {
					// the tree under test kills or hangs workers again and again: enough has been seen,
					// report what was found instead of paying a process restart (or a 40 s hang) per run
					mu.Unlock()
					stopEarly.Store(true)
					mu.Lock()
				}
				v := res.Violations[0]
				k := v.Key() + "|" + v.Sig
				f := founds[k]
				if f == nil {
					f = &found{V: v, Plan: &p}
					founds[k] = f
				}
				f.Count++
				if len(f.Runs) < 10 {
					f.Runs = append(f.Runs, p.Run)
				}
				mu.Unlock()
				_ = next
				from = p.Run + nw
			}
		}(w)
	}
	wg.Wait()
	wall := time.Since(start).Seconds()

	if len(internal) > 0 {
		sort.Strings(internal)
		fmt.Println("INTERNAL ERROR (harness, not a verdict):", internal[0])
		return 2
	}
	if watchdog {
		if len(founds) == 0 {
			fmt.Println("WATCHDOG: batch budget exhausted before all runs were executed (not a verdict)")
			return 2
		}
		// an incomplete batch cannot show that the property held, but what it found it found: the
		// violations below were produced by completed runs and are confirmed in fresh processes
		fmt.Println("NOTE: batch budget exhausted before all runs were executed; reporting the violations found by the runs that completed")
	}

	// classify violations
	known := loadKnown()
	keys := make([]string, 0, len(founds))
	for k := range founds {
		keys = append(keys, k)
	}
	sort.Strings(keys)
	rc := 0
	nviol := 0
	knownSeen := map[int]int{}
	replayDir := filepath.Join(verifDir, "replays")
	os.MkdirAll(replayDir, 0o755)
	minimised := 0
	for _, k := range keys {
		f := founds[k]
		if f.V.Prop != id {
			fmt.Printf("NOTE other-property=%s invariant=%s count=%d sig=%q (not decided by this check)\n", f.V.Prop, f.V.Invariant, f.Count, f.V.Sig)
			if os.Getenv("BSIM_NOTE_REPLAYS") != "" && f.Plan != nil {
				// development aid: keep the plan of a note so that it can be looked at
				path := filepath.Join(replayDir, fmt.Sprintf("NOTE-%s-%s.json", f.V.Prop, shortHash(k)))
				b, _ := json.MarshalIndent(ReplayFile{Violation: f.V, Seed: seed, Run: f.Plan.Run, Plan: f.Plan}, "", " ")
				os.WriteFile(path, b, 0o644)
				fmt.Printf("  note plan: %s (runs %v)\n", path, f.Runs)
			}
			continue
		}
		matched := -1
		for i, kn := range known {
			if kn.Status == "known" && kn.Property == f.V.Prop && strings.Contains(f.V.Sig, kn.Match) {
				matched = i
				break
			}
		}
		if matched >= 0 {
			knownSeen[matched] += f.Count
			continue
		}
		nviol += f.Count
		rc = 1
		path := filepath.Join(replayDir, fmt.Sprintf("%s-%s.json", id, shortHash(k)))
		rf := ReplayFile{Violation: f.V, Seed: seed, Plan: f.Plan}
		if f.Plan != nil {
			rf.Run = f.Plan.Run
			rf.Original = len(f.Plan.Ops)
			// a hang costs the watchdog's 40 s per execution: such plans are reported unminimised
			if minimised < 16 && !strings.Contains(f.V.Sig, "blocked forever") {
				minimised++
				pinSig := ""
				if f.V.Invariant == "process-death" || f.V.Invariant == "panic" {
					pinSig = f.V.Sig
				}
				// confirm in a fresh process first (every reported group up to 16; the first 4 are minimised)
				r0 := isolated(f.Plan, false)
				if minimise.Same(r0, f.V.Key(), pinSig) && minimised > 4 {
					rf.SchedHash = r0.SchedHash
				} else if minimise.Same(r0, f.V.Key(), pinSig) {
					mp, tries := minimise.Minimise(f.Plan, f.V.Key(), pinSig, func(p *vm.Plan) *vm.Result { return isolated(p, false) }, 150)
					r1 := isolated(mp, false)
					if minimise.Same(r1, f.V.Key(), pinSig) {
						rf.Plan, rf.Minimised, rf.Tries, rf.SchedHash = mp, true, tries, r1.SchedHash
						for _, v := range r1.Violations {
							if v.Key() == f.V.Key() {
								rf.Violation = v
								break
							}
						}
					}
				} else if pre := findPrelude(id, tier, seed, f, nw, pinSig); pre != nil {
					rf.Prelude = pre
					fmt.Printf("NOTE: violation %s needs state left behind by %d earlier plan(s) of the same process; the replay file is a session\n", k, len(pre))
				} else {
					fmt.Printf("WARNING: violation %s found by a worker did not reproduce in a fresh process; reporting the original plan\n", k)
				}
			}
		}
		b, _ := json.MarshalIndent(rf, "", " ")
		os.WriteFile(path, b, 0o644)
		fmt.Printf("violation: %s [%s] x%d runs=%v ops=%d\n  %s\n", f.V.Key(), f.V.Sig, f.Count, f.Runs, planOps(rf.Plan), strings.ReplaceAll(rf.Violation.Detail, "\n", "\n  "))
		fmt.Printf("VIOLATION property=%s replay=%s\n", id, path)
	}
	for i, kn := range known {
		if kn.Status == "known" && kn.Property == id {
			fmt.Printf("KNOWN-FINDING: property=%s %s (observed %d times in this run)\n", id, kn.What, knownSeen[i])
		}
	}

	// evidence
	writeEvidence(spec, id, tier, seed, total, wall, nviol, nw)
	fmt.Printf("done: %d evaluations (%d runs + %d sweep points), %d steps, %.1f s wall, %d violations\n", total.Evals, total.Runs, total.SubRuns, total.Steps, wall, nviol)
	return rc
}

// findPrelude looks for earlier plans of the reporting worker process that have to run first, in the
// same process, for the violation of f.Plan to appear: first one plan at a time (most recent first),
// then the whole history of that process, halved while the violation persists.
func findPrelude(id, tier string, seed int64, f *found, stride int, pinSig string) []*vm.Plan {
	if f.Plan == nil || stride <= 0 || f.Plan.Note == "sweep" {
		return nil
	}
	var runs []int
	for r := f.From; r < f.Plan.Run; r += stride {
		runs = append(runs, r)
	}
	if len(runs) == 0 {
		return nil
	}
	gen := func(rs []int) []*vm.Plan {
		ps := make([]*vm.Plan, len(rs))
		for i, r := range rs {
			ps[i] = props.Generate(id, seed, r, tier)
		}
		return ps
	}
	holds := func(rs []int) bool {
		return minimise.Same(isolatedSeq(gen(rs), f.Plan, false), f.V.Key(), pinSig)
	}
	for i, tries := len(runs)-1, 0; i >= 0 && tries < 48; i, tries = i-1, tries+1 {
		if holds(runs[i : i+1]) {
			return gen(runs[i : i+1])
		}
	}
	if !holds(runs) {
		return nil
	}
	for tries := 0; len(runs) > 1 && tries < 40; tries++ {
		h := len(runs) / 2
		if holds(runs[h:]) {
			runs = runs[h:]
		} else if holds(runs[:h]) {
			runs = runs[:h]
		} else {
			break
		}
	}
	return gen(runs)
}

func planOps(p *vm.Plan) int {
	if p == nil {
		return 0
	}
	return len(p.Ops)
}

func shortHash(s string) string {
	h := uint64(14695981039346656037)
	for i := 0; i < len(s); i++ {
		h ^= uint64(s[i])
		h *= 1099511628211
	}
	return fmt.Sprintf("%012x", h&0xffffffffffff)
}

func tail(s string, n int) string {
	if len(s) > n {
		return s[len(s)-n:]
	}
	return s
}

// spawnWorker runs one worker process over runs from, from+stride, ... and
// feeds its messages to sink. died reports an abnormal end.
func spawnWorker(id, tier string, seed int64, from, to, stride int, cur string, deadline time.Time, sink func(wmsg)) (next int, stderrOut string, died bool) {
	self, _ := os.Executable()
	cmd := exec.Command(self, "worker", id, tier, fmt.Sprint(seed), fmt.Sprint(from), fmt.Sprint(to), fmt.Sprint(stride), cur)
	pr, pw, _ := os.Pipe()
	cmd.ExtraFiles = []*os.File{pw}
	var stderr bytes.Buffer
	cmd.Stderr = &stderr
	// one OS thread per worker: inside a bubble at most one goroutine is runnable, and
	// 16 workers already use every core (measured 4x faster than GOMAXPROCS=16)
	cmd.Env = append(os.Environ(), "TZ=UTC", "GOMAXPROCS="+envOr("BSIM_GOMAXPROCS", "1"))
	cmd.Env = append(cmd.Env, raceEnv()...)
	if err := cmd.Start(); err != nil {
		return from, err.Error(), true
	}
	pw.Close()
	finished := false
	var killed atomic.Bool
	timer := time.AfterFunc(time.Until(deadline)+30*time.Second, func() { killed.Store(true); cmd.Process.Kill() })
	sc := bufio.NewScanner(pr)
	sc.Buffer(make([]byte, 1<<20), 1<<28)
	for sc.Scan() {
		var m wmsg
		if json.Unmarshal(sc.Bytes(), &m) != nil {
			continue
		}
		if m.Type == "done" {
			finished = true
			continue
		}
		sink(m)
	}
	cmd.Wait()
	timer.Stop()
	pr.Close()
	if killed.Load() {
		return from, "BSIM-KILLED-BY-DEADLINE", true
	}
	return from, stderr.String(), !finished
}

func uniq(ss []string) int {
	m := map[string]struct{}{}
	for _, s := range ss {
		m[s] = struct{}{}
	}
	return len(m)
}

func writeEvidence(spec *props.Spec, id, tier string, seed int64, a *Agg, wall float64, nviol, workers int) {
	var samples []interface{}
	for _, p := range a.Samples {
		if len(samples) >= 2 {
			break
		}
		samples = append(samples, p)
	}
	if len(samples) == 0 {
		samples = append(samples, props.Generate(id, seed, 0, tier))
	}
	zero := []string{}
	for k, v := range a.Probes {
		if v == 0 {
			zero = append(zero, k)
		}
	}
	cov := map[string]interface{}{
		"evaluations":          a.Evals,
		"distinct_nontrivial":  uniq(a.Nontrivial),
		"rule":                 spec.Rule,
		"samples":              samples,
		"exhaustive":           false,
		"runs":                 a.Runs,
		"runs_per_hour":        int(float64(a.Evals) / wall * 3600),
		"seeds":                []int64{seed},
		"scheduler_steps":      a.Steps,
		"operations":           a.Ops,
		"simulated_time_s":     float64(a.SimNs) / 1e9,
		"simulated_stall_s":    float64(a.StallNs) / 1e9,
		"faults_fired":         a.Faults,
		"probes":               a.Probes,
		"yield_sites_released": a.Sites,
		"distinct_schedules":   uniq(a.Scheds),
		"distinct_states":      uniq(a.States),
		"workers":              workers,
		"components":           map[string]interface{}{"real": spec.Real, "simulated": spec.Simulated},
	}
	if a.SweepPoints > 0 {
		cov["fault_enumeration"] = map[string]interface{}{
			"programs":         a.SweepPrograms,
			"injection_points": a.SweepPoints,
			"exhaustive_in":    "the scheduler step at which the clock stall is injected (every step of each catalogue program's calm schedule, three durations around the deadline)",
		}
	}
	for k, v := range spec.ExtraCoverage {
		cov[k] = v
	}
	ev := map[string]interface{}{
		"property_id": id,
		"tier":        tier,
		"seed":        seed,
		"level":       spec.Level,
		"coverage":    cov,
		"assumptions": spec.Assumptions,
		"wall_s":      wall,
		"violations":  nviol,
	}
	os.MkdirAll(filepath.Join(verifDir, "evidence"), 0o755)
	b, _ := json.MarshalIndent(ev, "", " ")
	os.WriteFile(filepath.Join(verifDir, "evidence", id+".json"), b, 0o644)
}

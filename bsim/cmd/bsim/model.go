package main

import (
	"crypto/ed25519"
	"encoding/hex"
	"encoding/json"
	"fmt"
	"os"
	"path/filepath"
	"sort"
	"strings"

	"github.com/biscuit-auth/biscuit-go/v2/parser"

	"bsim/lower"
	"bsim/ref"
)

type sampleFile struct {
	RootPublicKey string `json:"root_public_key"`
	TestCases     []struct {
		Filename string `json:"filename"`
		Token    []struct {
			Code string `json:"code"`
		} `json:"token"`
		Validations map[string]struct {
			Result struct {
				Ok  *int `json:"Ok"`
				Err *struct {
					Format      json.RawMessage `json:"Format"`
					FailedLogic *struct {
						Unauthorized *struct {
							Policy map[string]int `json:"policy"`
							Checks []map[string]struct {
								BlockID int `json:"block_id"`
								CheckID int `json:"check_id"`
							} `json:"checks"`
						} `json:"Unauthorized"`
						InvalidBlockRule json.RawMessage `json:"InvalidBlockRule"`
					} `json:"FailedLogic"`
				} `json:"Err"`
			} `json:"result"`
			AuthorizerCode string `json:"authorizer_code"`
		} `json:"validations"`
	} `json:"testcases"`
}

// selftestModel validates the reference model (wire reader, chain walk,
// decision procedure, expression evaluator) against the sample tokens and the
// verdicts recorded in the repository's samples.json. A disagreement is exit 2.
func selftestModel() int {
	dir := filepath.Join(envOr("BSIM_REPO_DIR", "/repo"), "samples", "data", "current")
	raw, err := os.ReadFile(filepath.Join(dir, "samples.json"))
	if err != nil {
		fmt.Println("cannot read samples:", err)
		return 2
	}
	var sf sampleFile
	if err := json.Unmarshal(raw, &sf); err != nil {
		fmt.Println("cannot parse samples.json:", err)
		return 2
	}
	rootB, _ := hex.DecodeString(sf.RootPublicKey)
	root := ed25519.PublicKey(rootB)
	prs := parser.New()
	bad, nChain, nContent, nVerdict := 0, 0, 0, 0
	fail := func(f string, a ...interface{}) {
		bad++
		fmt.Printf("MODEL DISAGREES: "+f+"\n", a...)
	}
	for _, tc := range sf.TestCases {
		if tc.Filename >= "test024" { // v4 blocks: not this library's schema version
			continue
		}
		data, err := os.ReadFile(filepath.Join(dir, tc.Filename))
		if err != nil {
			fail("%s: %v", tc.Filename, err)
			continue
		}
		expectFormatErr := false
		for _, v := range tc.Validations {
			if v.Result.Err != nil && v.Result.Err.Format != nil {
				expectFormatErr = true
			}
		}
		env, derr := ref.DecodeBiscuit(data)
		var cerr error
		if derr == nil {
			cerr = ref.VerifyChain(env, root)
		}
		nChain++
		valid := derr == nil && cerr == nil
		if valid == expectFormatErr {
			fail("%s: chain valid=%v (decode %v, chain %v) but samples.json expects format error=%v", tc.Filename, valid, derr, cerr, expectFormatErr)
			continue
		}
		if !valid {
			continue
		}
		tok, _, problems, err := ref.DecodeToken(data)
		if err != nil || len(problems) > 0 {
			fail("%s: independent decoder: %v %v", tc.Filename, err, problems)
			continue
		}
		// content: block for block equal to the Datalog source recorded in samples.json
		if len(tok.Blocks) == len(tc.Token) {
			for i, b := range tc.Token {
				pb, err := prs.Block(b.Code, nil)
				if err != nil {
					continue // source uses syntax this parser does not know
				}
				want, err := lower.BackBlock(pb)
				if err != nil {
					continue
				}
				got := tok.Blocks[i]
				got.Context, want.Context = "", ""
				// the source syntax "check if ..." does not record the head of a check query
				for _, blk := range []*ref.Block{&got, &want} {
					for ci := range blk.Checks {
						for qi := range blk.Checks[ci].Queries {
							blk.Checks[ci].Queries[qi].Head = ref.Pred{Name: "query"}
						}
					}
				}
				nContent++
				if got.Canon() != want.Canon() {
					fail("%s block %d content:\n  decoded: %s\n  source:  %s", tc.Filename, i, got.Canon(), want.Canon())
				}
			}
		}
		for name, v := range tc.Validations {
			pa, err := prs.Authorizer(v.AuthorizerCode, nil)
			if err != nil {
				continue
			}
			az, err := lower.BackAuthorizer(pa)
			if err != nil {
				continue
			}
			out := ref.Authorize(tok, az, 4000)
			nVerdict++
			switch {
			case v.Result.Ok != nil:
				if out.Class != ref.VAllow {
					fail("%s[%s]: reference %s (failed %v), samples.json Ok", tc.Filename, name, out.Class, out.FailedChecks)
				}
			case v.Result.Err != nil && v.Result.Err.FailedLogic != nil && v.Result.Err.FailedLogic.Unauthorized != nil:
				u := v.Result.Err.FailedLogic.Unauthorized
				var want []string
				for _, c := range u.Checks {
					for kind, id := range c {
						if kind == "Authorizer" {
							want = append(want, fmt.Sprintf("-1/%d", id.CheckID))
						} else {
							want = append(want, fmt.Sprintf("%d/%d", id.BlockID, id.CheckID))
						}
					}
				}
				sort.Strings(want)
				var got []string
				for _, c := range out.FailedChecks {
					got = append(got, c.String())
				}
				sort.Strings(got)
				if strings.Join(got, ",") != strings.Join(want, ",") {
					fail("%s[%s]: reference failed checks %v, samples.json %v", tc.Filename, name, got, want)
				}
				if len(want) == 0 {
					if _, deny := u.Policy["Deny"]; deny && out.Class != ref.VDeny {
						fail("%s[%s]: reference %s, samples.json deny", tc.Filename, name, out.Class)
					}
				}
			case v.Result.Err != nil && v.Result.Err.FailedLogic != nil && v.Result.Err.FailedLogic.InvalidBlockRule != nil:
				// newer implementations reject such a rule statically; this schema version only fails when it fires
				if !out.Uncertain && out.Class != ref.VCheckFail {
					fail("%s[%s]: samples.json InvalidBlockRule but reference says %s", tc.Filename, name, out.Class)
				}
			}
		}
	}
	fmt.Printf("reference model self-validation: %d chains, %d blocks decoded and compared with their source, %d verdicts compared; %d disagreements\n", nChain, nContent, nVerdict, bad)
	if bad > 0 {
		return 2
	}
	return 0
}

package main

func selftestModel() int { return 0 }

package main

import (
	"bytes"
	"encoding/json"
	"fmt"
	"os"
	"os/exec"
	"sort"
	"strconv"
	"strings"

	"bsim/props"
	"bsim/race"
	"bsim/vm"
)

// execWith runs one plan in a fresh process with the given GOMAXPROCS and
// returns the full result (with trace).
func execWith(p *vm.Plan, gomaxprocs int) (*vm.Result, string) {
	self, _ := os.Executable()
	cmd := exec.Command(self, "exec")
	cmd.Stdin = bytes.NewReader(p.JSON())
	pr, pw, _ := os.Pipe()
	cmd.ExtraFiles = []*os.File{pw}
	var stderr bytes.Buffer
	cmd.Stderr = &stderr
	cmd.Env = append(os.Environ(), "TZ=UTC", "BSIM_TRACE=1", "GOMAXPROCS="+strconv.Itoa(gomaxprocs))
	if err := cmd.Start(); err != nil {
		return nil, err.Error()
	}
	pw.Close()
	var buf bytes.Buffer
	buf.ReadFrom(pr)
	cmd.Wait()
	pr.Close()
	var res vm.Result
	if json.Unmarshal(bytes.TrimSpace(buf.Bytes()), &res) != nil {
		return nil, "died: " + tail(stderr.String(), 300)
	}
	return &res, ""
}

func cmdSelftest(args []string) int {
	if len(args) < 1 {
		return 2
	}
	switch args[0] {
	case "determinism":
		return selftestDeterminism(args[1:])
	case "model":
		return selftestModel()
	}
	return 2
}

// selftestDeterminism executes, for each property, nseeds plans in fresh
// processes at GOMAXPROCS 1, 4 and 16 and requires byte-identical results
// (full scheduler trace, violations, probes).
func selftestDeterminism(args []string) int {
	n := 12
	if s := os.Getenv("BSIM_DET_N"); s != "" {
		n, _ = strconv.Atoi(s)
	}
	ids := args
	if len(ids) == 0 {
		for id := range props.Registry {
			ids = append(ids, id)
		}
	}
	sort.Strings(ids)
	bad := 0
	total := 0
	type job struct {
		id  string
		run int
	}
	jobs := make(chan job)
	results := make(chan string)
	nw := 8
	for w := 0; w < nw; w++ {
		go func() {
			for j := range jobs {
				if props.Registry[j.id].Race != race.Enabled { // C19 runs in the -race binary only, everything else in the plain one
					results <- ""
					continue
				}
				p := props.Generate(j.id, 7, j.run, "quick")
				var ref string
				msg := ""
				for _, gmp := range []int{1, 4, 16} {
					res, err := execWith(p, gmp)
					var cur string
					if res == nil {
						cur = "DEATH " + err
						// a death must also be deterministic: compare the first line only
						if i := strings.Index(cur, "\n"); i > 0 {
							cur = cur[:i]
						}
					} else {
						b, _ := json.Marshal(res)
						cur = string(b)
					}
					if gmp == 1 {
						ref = cur
					} else if cur != ref {
						msg = fmt.Sprintf("NONDETERMINISM property=%s run=%d GOMAXPROCS=%d\n a: %s\n b: %s", j.id, j.run, gmp, clip(ref), clip(cur))
					}
				}
				results <- msg
			}
		}()
	}
	go func() {
		for _, id := range ids {
			for run := 0; run < n; run++ {
				jobs <- job{id, run*37 + 11}
			}
		}
		close(jobs)
	}()
	for range ids {
		for run := 0; run < n; run++ {
			total++
			if m := <-results; m != "" {
				fmt.Println(m)
				bad++
			}
		}
	}
	fmt.Printf("determinism self-test: %d plans x 3 processes (GOMAXPROCS 1/4/16), %d diverged\n", total, bad)
	if bad > 0 {
		return 2
	}
	return 0
}

func clip(s string) string {
	if len(s) > 600 {
		return s[:600] + "…"
	}
	return s
}

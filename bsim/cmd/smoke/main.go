package main

import (
	"fmt"

	"github.com/biscuit-auth/biscuit-go/v2/datalog"

	"bsim/sched"
)

func main() {
	for round := 0; round < 3; round++ {
		s := sched.New([]uint32{3, 1, 4, 1, 5, 9, 2, 6}, []sched.Fault{{Step: 70 + round, Kind: "stall", D: 5e6}})
		s.KeepTrace = true
		berr, ns := s.Bubble(func() {
			w := datalog.NewWorld()
			syms := &datalog.SymbolTable{}
			for i := 0; i < 3; i++ {
				w.AddFact(datalog.Fact{Predicate: datalog.Predicate{Name: 1, Terms: []datalog.Term{datalog.Integer(i)}}})
			}
			// q($5) <- p($1): invalid rule with >= 2 matches
			w.AddRule(datalog.Rule{Head: datalog.Predicate{Name: 2, Terms: []datalog.Term{datalog.Variable(0)}}, Body: []datalog.Predicate{{Name: 1, Terms: []datalog.Term{datalog.Variable(0)}}}})
			if round == 2 {
				w.AddRule(datalog.Rule{Head: datalog.Predicate{Name: 3, Terms: []datalog.Term{datalog.Variable(5)}}, Body: []datalog.Predicate{{Name: 1, Terms: []datalog.Term{datalog.Variable(0)}}}})
			}
			var err error
			r := s.Call(func() { err = w.Run(syms) })
			fmt.Printf("round %d err=%v facts=%d res=%+v\n", round, err, len(*w.Facts()), r)
		})
		fmt.Println("bubble:", berr, ns, "hash", s.Hash(), "steps", s.Step)
	}
}
